"""CONST, BIND (C12); SCALER, UNITS (C17); DIAG (C18)."""
from __future__ import annotations

import ast
import copy
import glob
from typing import Dict, List, Optional, Set, Tuple

from .. import tables as T
from ..cfg import Node
from ..core import AnalysisError, Func, Ob, bind_args, dotted, kw, need, ob, short, src, uncopy, walk_no_nested
from ..flow import forward, node_calls, node_defs
from ..runner import Ctx, rule
from .mainmodel import mainmodel


def _lit(e: Optional[ast.expr]):
    try:
        return ast.literal_eval(e) if e is not None else None
    except Exception:
        return None


@rule("CONST", min_instances=12)
def rule_const(ctx: Ctx) -> List[Ob]:
    """the evaluated default values of the line-search and curvature constants equal those
    hard-coded in Algorithm 778 (ftol 1e-3, gtol 0.9, xtol 0.1, epsmch 2.2e-16, 20 backtracks) at the
    public entry point and at every sibling signature"""
    obs: List[Ob] = []
    R = T.REFERENCE_CONSTANTS
    table = [("main.minimize_lbfgsb", {k: R[k] for k in R}),
             ("linesearch.line_search", {"ftol": R["ftol_linesearch"], "gtol": R["gtol_linesearch"], "xtol": R["xtol_linesearch"]}),
             ("bfgsmats.update_lbfgs_matrices", {"eps": R["eps_SY"]}), ("bfgsmats.update_X_and_G", {"eps": R["eps_SY"]}),
             ("bfgsmats.is_update_X_and_G", {"eps": R["eps_SY"]}),
             ("bfgsmats.make_X_and_G_respect_strong_wolfe", {"eps": R["eps_SY"]})]
    for q, want in table:
        f = ctx.repo.func(q)
        d = f.defaults()
        for p, ref in want.items():
            need(p in f.params, f"CONST: parameter {p} vanished from {q}")
            v = _lit(d.get(p))
            ok = v is not None and not isinstance(v, bool) and float(v) == float(ref)
            obs.append(ob("CONST", f"default of {f.name}({p}) is the reference value {ref}", f, d.get(p) or f.node, ok,
                          f"default evaluates to {v!r}" + ("" if ok else f", Algorithm 778 uses {ref}: every existing assertion stays true "
                                                               "but different trial steps are accepted"), False,
                          construct=f"{f.name}({p}={short(d.get(p))})"))
    # the scaling of the initial model: B_0 = theta I with theta = 1 (Algorithm 778 starts from the identity)
    init = ctx.repo.func("bfgsmats.LBFGSB_MATRICES.__init__")
    th = [s_ for s_ in walk_no_nested(init.node) if isinstance(s_, (ast.Assign, ast.AnnAssign)) and getattr(s_, "value", None) is not None
          and src(s_.targets[0] if isinstance(s_, ast.Assign) else s_.target) == "self.theta"]
    need(len(th) == 1, "CONST: initial theta of LBFGSB_MATRICES not found")
    v = _lit(th[0].value)
    ok = v is not None and not isinstance(v, bool) and float(v) == 1.0
    obs.append(ob("CONST", "the initial model is the identity (theta = 1)", init, th[0], ok, f"self.theta = {short(th[0].value)}", False,
                  construct="LBFGSB_MATRICES(): theta = 1.0"))
    return obs


def _scipy_sig(cls_or_fn: str, meth: Optional[str]) -> Optional[List[str]]:
    for pat in ("/venv/lib/python*/site-packages/scipy/optimize/_dcsrch.py",):
        for p in sorted(glob.glob(pat)):
            tree = ast.parse(open(p).read())
            for n in ast.walk(tree):
                if isinstance(n, ast.ClassDef) and n.name == cls_or_fn:
                    for m in n.body:
                        if isinstance(m, ast.FunctionDef) and m.name == meth:
                            return [a.arg for a in m.args.args][1:]
    return None


@rule("BIND", min_instances=10)
def rule_bind(ctx: Ctx) -> List[Ob]:
    """each constant reaches its consumer in the right slot: minimize_lbfgsb -> line_search(ftol,
    gtol, xtol), line_search -> DCSRCH(.., ftol, gtol, xtol, stpmin=0, stpmax) resolved against the
    signature in SciPy's source (and the legacy dcsrch slot table), eps_SY -> update_lbfgs_matrices /
    the curvature filter -> update_X_and_G -> is_update_X_and_G"""
    mm = mainmodel(ctx)
    obs: List[Ob] = []
    ls = ctx.repo.func("linesearch.line_search")
    n = 0
    for c in walk_no_nested(mm.f.node):
        if isinstance(c, ast.Call) and (dotted(c.func) or "").split(".")[-1] == "line_search":
            b = bind_args(c, ls.node)
            for p, w in (("ftol", "ftol_linesearch"), ("gtol", "gtol_linesearch"), ("xtol", "xtol_linesearch"),
                         ("max_steplength_user", None), ("sf", mm.sf), ("x0", mm.x), ("lb", mm.lb), ("ub", mm.ub),
                         ("above_iter", f"{mm.istate}.nit"), ("is_boxed", "is_boxed")):
                if w is None:
                    continue
                n += 1
                from ..flow import Expander as _E
                ok = src(b.get(p)) == w or (b.get(p) is not None and src(_E(ctx, mm.f).expand_at(c, b.get(p))) == w)
                obs.append(ob("BIND", f"line_search({p}=) receives {w}", mm.f, b.get(p) or c, ok,
                              f"{p} <- {short(b.get(p))}", construct=f"line_search({p}={short(b.get(p), 30)})"))
    need(n >= 6, "BIND: line_search call not found in minimize_lbfgsb")
    # DCSRCH constructor and _iterate
    sig = _scipy_sig("DCSRCH", "__init__")
    need(sig is not None, "BIND: SciPy's DCSRCH.__init__ not found")
    for c in walk_no_nested(ls.node):
        if isinstance(c, ast.Call) and (dotted(c.func) or "").endswith("DCSRCH"):
            fake = ast.FunctionDef(name="f", args=ast.arguments(posonlyargs=[], args=[ast.arg(arg=a) for a in sig], kwonlyargs=[],
                                                                  kw_defaults=[], defaults=[]), body=[], decorator_list=[])
            b = bind_args(c, fake)
            for p, w in (("ftol", "ftol"), ("gtol", "gtol"), ("xtol", "xtol"), ("stpmin", "0.0"), ("stpmax", "max_steplength"),
                         ("phi", "phi"), ("derphi", "dphi")):
                v = b.get(p)
                ok = v is not None and (src(v) == w or (p == "stpmin" and _lit(v) == 0))
                if not ok and p in ("phi", "derphi") and isinstance(v, ast.Name):
                    # by role: a local closure returning sf.fun(point) / sf.grad(point).dot(d)
                    for dfn in ast.walk(ls.node):
                        if isinstance(dfn, ast.FunctionDef) and dfn.name == v.id:
                            rr = [r_.value for r_ in ast.walk(dfn) if isinstance(r_, ast.Return) and r_.value is not None]
                            if len(rr) == 1 and isinstance(rr[0], ast.Call) and isinstance(rr[0].func, ast.Attribute):
                                r0 = rr[0]
                                if p == "phi":
                                    ok = r0.func.attr == "fun" and src(r0.func.value) == "sf"
                                else:
                                    g0 = r0.func.value
                                    ok = r0.func.attr == "dot" and [src(a_) for a_ in r0.args] == ["d"] and isinstance(g0, ast.Call) and \
                                        isinstance(g0.func, ast.Attribute) and g0.func.attr == "grad" and src(g0.func.value) == "sf"
                obs.append(ob("BIND", f"DCSRCH({p}=) receives {w}", ls, v or c, ok, f"{p} <- {short(v)} (SciPy signature {sig})",
                              construct=f"DCSRCH({p}={short(v, 30)})"))
        if isinstance(c, ast.Call) and (dotted(c.func) or "").split(".")[-1] == "max_allowed_steplength":
            # the user's cap and the iteration number reach the cap computation in their own slots
            g_ = ctx.repo.func("linesearch.max_allowed_steplength")
            b = bind_args(c, g_.node)
            want_ = dict(zip(g_.params, ["x0", "d", "lb", "ub", "max_steplength_user", "above_iter"]))
            for p_, w_ in want_.items():
                v = b.get(p_)
                ok = v is not None and src(v) == w_
                obs.append(ob("BIND", f"max_allowed_steplength({p_}=) receives {w_}", ls, v or c, ok, f"{p_} <- {short(v)}",
                              construct=f"max_allowed_steplength({p_}={short(v, 30)})"))
        if isinstance(c, ast.Call) and (dotted(c.func) or "").endswith("minpack2.dcsrch"):
            slots = ["stp", "f", "g", "ftol", "gtol", "xtol", "task", "stpmin", "stpmax", "isave", "dsave"]
            got = {s: a for s, a in zip(slots, c.args)}
            # the legacy routine is driven like the new one: same step, value, slope and task variables as DCSRCH._iterate
            its_ = [x for x in walk_no_nested(ls.node) if isinstance(x, ast.Call) and isinstance(x.func, ast.Attribute) and x.func.attr == "_iterate"]
            if len(its_) == 1 and len(its_[0].args) == 4:
                for p_, a_ in zip(("stp", "f", "g", "task"), its_[0].args):
                    v = got.get(p_)
                    ok = v is not None and src(v) == src(a_)
                    obs.append(ob("BIND", f"legacy dcsrch slot {p_} receives what DCSRCH._iterate receives", ls, v or c, ok,
                                  f"{p_} <- {short(v)} (_iterate: {short(a_)})", construct=f"dcsrch({p_}={short(v, 30)})"))
                for p_ in ("isave", "dsave"):
                    v = got.get(p_)
                    ok = v is not None and src(v) == p_
                    obs.append(ob("BIND", f"legacy dcsrch slot {p_} receives the work array {p_}", ls, v or c, ok, f"{p_} <- {short(v)}",
                                  construct=f"dcsrch({p_}={short(v, 30)})"))
            for p, w in (("ftol", "ftol"), ("gtol", "gtol"), ("xtol", "xtol"), ("stpmax", "max_steplength")):
                v = got.get(p)
                ok = v is not None and src(v) == w
                obs.append(ob("BIND", f"legacy dcsrch slot {p} receives {w}", ls, v or c, ok, f"{p} <- {short(v)}",
                              construct=f"minpack2.dcsrch[{p}]={short(v, 30)}"))
    # max_steplength comes from max_allowed_steplength(x0, d, lb, ub, ...)
    mas = ctx.repo.func("linesearch.max_allowed_steplength")
    for c in walk_no_nested(ls.node):
        if isinstance(c, ast.Call) and dotted(c.func) == "max_allowed_steplength":
            b = bind_args(c, mas.node)
            ok = [src(b.get(p)) for p in ("x", "d", "lb", "ub")] == ["x0", "d", "lb", "ub"]
            obs.append(ob("BIND", "maximum feasible step is computed from (x0, d, lb, ub)", ls, c, ok,
                          f"bound: { {p: short(b.get(p)) for p in ('x', 'd', 'lb', 'ub')} }", construct="max_allowed_steplength(x0, d, lb, ub, ..)"))
    # eps chain
    chain = [(mm.f, "update_lbfgs_matrices", "bfgsmats.update_lbfgs_matrices", "eps", "eps_SY"),
             (mm.f, "make_X_and_G_respect_strong_wolfe", "bfgsmats.make_X_and_G_respect_strong_wolfe", "eps", "eps_SY"),
             (ctx.repo.func("bfgsmats.update_lbfgs_matrices"), "update_X_and_G", "bfgsmats.update_X_and_G", "eps", "eps"),
             (ctx.repo.func("bfgsmats.update_X_and_G"), "is_update_X_and_G", "bfgsmats.is_update_X_and_G", "eps", "eps"),
             (ctx.repo.func("bfgsmats.make_X_and_G_respect_strong_wolfe"), "is_update_X_and_G", "bfgsmats.is_update_X_and_G", "eps", "eps")]
    for caller, nm, tq, p, w in chain:
        g = ctx.repo.func(tq)
        k = 0
        for c in walk_no_nested(caller.node):
            if isinstance(c, ast.Call) and (dotted(c.func) or "").split(".")[-1] == nm:
                k += 1
                b = bind_args(c, g.node)
                ok = src(b.get(p)) == w
                obs.append(ob("BIND", f"{nm}({p}=) receives {w}", caller, b.get(p) or c, ok,
                              f"{p} <- {short(b.get(p))}" + ("" if ok else ": the callee falls back to its own default / another value"),
                              construct=f"{caller.name} -> {nm}({p}={short(b.get(p), 20)}) #{k}"))
        need(k >= 1, f"BIND: {caller.qual} no longer calls {nm}")
    return obs


# ------------------------------------------------------------------ C17
@rule("SCALER", min_instances=3)
def rule_scaler(ctx: Ctx) -> List[Ob]:
    """the gradient scaler is invoked at one call site outside every loop with the clipped start
    point, the not-yet-scaled gradient and the bounds of get_bounds; its result is the only write of
    the wrapper's factor outside the wrapper"""
    mm = mainmodel(ctx)
    cfg, rd = mm.cfg, mm.rd
    obs: List[Ob] = []
    calls = [c for c in walk_no_nested(mm.f.node) if isinstance(c, ast.Call) and isinstance(c.func, ast.Name) and c.func.id == "gradient_scaler"]
    ok = len(calls) == 1 and not mm.in_loop(calls[0])
    obs.append(ob("SCALER", "one call site outside every loop", mm.f, calls[0] if calls else mm.f.node, ok,
                  f"{len(calls)} call site(s), in loop: {[mm.in_loop(c) for c in calls]}", construct="gradient_scaler(...) call sites"))
    if calls:
        c = calls[0]
        n = cfg.node_of(c)
        args = [src(a) for a in c.args]
        fin = mm.result_of_return(mm.final_return)
        gn = src(kw(fin, "jac"))
        oka = len(args) == 4 and args[0] == mm.x and args[1] == gn and args[2] == mm.lb and args[3] == mm.ub and not c.keywords
        # x: only the projection of x0 reaches;  grad: no scaled definition reaches
        xd = [short(v) for _, v, _ in rd.value_exprs(n, mm.x) if v is not None]
        gd = [(d, v) for d, v, _ in rd.value_exprs(n, gn)]
        xok = len(xd) == 1 and ("clip2bounds(x0" in xd[0] or "np.clip(x0" in xd[0])
        def raw_grad(v):
            if isinstance(v, ast.IfExp):
                return raw_grad(v.body) and raw_grad(v.orelse)
            return v is not None and (src(v) in (f"{mm.sf}.grad({mm.x})", "checkpoint.jac") or src(uncopy(v)) == "checkpoint.jac")
        gok = bool(gd) and all(raw_grad(v) for _, v in gd)
        obs.append(ob("SCALER", "called with (clipped start point, unscaled gradient, lb, ub)", mm.f, c, oka and xok and gok,
                      f"arguments {args}; x <- {xd}; grad <- {[short(v) for _, v in gd]}",
                      construct=short(c)))
    writes = []
    for q, f in ctx.repo.funcs.items():
        if f.cls == "ScalarFunction":
            continue
        for s in walk_no_nested(f.node):
            tg = s.targets if isinstance(s, ast.Assign) else [s.target] if isinstance(s, (ast.AugAssign, ast.AnnAssign)) else []
            for t in tg:
                if isinstance(t, ast.Attribute) and t.attr == "scaling_factor":
                    writes.append((f, s))
    def kind(st):
        v = st.value if isinstance(st, ast.Assign) else None
        if isinstance(v, ast.Call) and isinstance(v.func, ast.Name) and v.func.id == "gradient_scaler":
            return "scaler"
        if isinstance(v, ast.Name):
            # a local bound (only) to the scaler's result
            try:
                vals = mm.rd.value_exprs(mm.cfg.node_of(st), v.id)
            except Exception:
                vals = []
            if vals and all(x is not None and isinstance(x, ast.Call) and isinstance(x.func, ast.Name) and x.func.id == "gradient_scaler"
                            for _, x, _ in vals):
                return "scaler"
        if v is not None and any(isinstance(x, ast.Name) and x.id == "checkpoint" for x in ast.walk(v)):
            return "restore"
        return "other"
    kinds = sorted(kind(st) for _, st in writes)
    okw = kinds in (["scaler"], ["restore", "scaler"])
    obs.append(ob("SCALER", "the factor is written outside the wrapper only by the scaler call and by the restore from a checkpoint",
                  writes[0][0] if writes else mm.f, writes[0][1] if writes else mm.f.node, okw,
                  f"{len(writes)} write(s): {[short(s) for _, s in writes]} -> {kinds}",
                  construct="writes of sf.scaling_factor outside ScalarFunction"))
    return obs


RAW, MIXED, DOUBLE = "RAW", "MIXED", "DOUBLE"
ONE, SC, CK = "1", "scaler", "checkpoint"      # what the wrapper's factor currently is


def S(tag: str) -> str:
    return f"SCALED[{tag}]"


def _is_ckpt_atom(t: ast.AST) -> Optional[bool]:
    """`checkpoint is None` -> True, `checkpoint is not None` -> False, else None"""
    if isinstance(t, ast.Compare) and len(t.ops) == 1 and isinstance(t.left, ast.Name) and t.left.id == "checkpoint" and \
            isinstance(t.comparators[0], ast.Constant) and t.comparators[0].value is None:
        if isinstance(t.ops[0], ast.Is):
            return True
        if isinstance(t.ops[0], ast.IsNot):
            return False
    return None


@rule("UNITS", min_instances=8)
def rule_units(ctx: Ctx) -> List[Ob]:
    """scaled and unscaled quantities are never mixed, in a fresh run and in a restart alike.  Values carry the
    unit RAW or SCALED[by which factor]; the wrapper's factor is 1 until it is written, then `scaler` (result of the
    gradient scaler) or `checkpoint` (restored from the checkpoint).  Writer/reader agreement: every result stores
    fun and jac after the scaling, so checkpoint.fun / checkpoint.jac are SCALED[checkpoint].  Decided separately
    on the paths with and without a checkpoint (edges contradicting the mode are pruned):  the target stop is
    tested on an unscaled value, the relative-change test compares like units, fun and jac are scaled exactly once
    from unscaled values, the scaler receives an unscaled gradient, and what results and the line search receive is
    scaled by the wrapper's current factor"""
    mm = mainmodel(ctx)
    cfg = mm.cfg
    sf = mm.sf
    fin = mm.result_of_return(mm.final_return)
    fn_, gn = src(kw(fin, "fun")), src(kw(fin, "jac"))
    fac = f"{sf}.scaling_factor"
    FAC = "$factor"
    MODE: List[bool] = []      # [True] while analysing the paths without a checkpoint, [False] with one

    def times_factor(v: Optional[ast.expr], name: str, st=None) -> bool:
        if not (isinstance(v, ast.BinOp) and isinstance(v.op, ast.Mult)):
            return False
        if {src(v.left), src(v.right)} == {name, fac}:
            return True
        if st is not None:
            for a, b in ((v.left, v.right), (v.right, v.left)):
                if src(a) == name and is_fac(b, st):
                    return True
        return False

    def cur(st) -> str:
        return st.get(FAC, ONE)

    def evaluated(st, which: str) -> str:
        """unit of what the wrapper's accessor returns: the cached value times the current factor.  The cache normally
        holds an unscaled value (it is written by the evaluation closures only, rule SF3); if the solver primed it from
        outside (`sf.f = ...`) it holds whatever unit was stored"""
        memo = st.get(f"$memo:{which}")
        if memo is None or memo == RAW:
            return scaled_now(st)
        if memo.startswith("SCALED") and cur(st) == ONE:
            return memo
        return DOUBLE if memo.startswith("SCALED") else MIXED

    def is_fac(e: ast.expr, st) -> bool:
        """the wrapper's factor, or a local name bound to it since the factor was last written"""
        if src(e) == fac:
            return True
        return isinstance(e, ast.Name) and st.get(e.id) == ("FACTOR-ALIAS", cur(st))

    def scaled_now(st) -> str:
        return RAW if cur(st) == ONE else S(cur(st))

    def unit_of(e: ast.expr, st) -> str:
        e = uncopy(e)
        if isinstance(e, ast.IfExp):
            t, neg = e.test, False
            while isinstance(t, ast.UnaryOp) and isinstance(t.op, ast.Not):
                t, neg = t.operand, not neg
            at = _is_ckpt_atom(t)
            if at is not None and MODE:
                holds = (at == MODE[0]) != neg        # truth of the test on the paths of this mode
                return unit_of(e.body if holds else e.orelse, st)
            a, b = unit_of(e.body, st), unit_of(e.orelse, st)
            return a if a == b else MIXED
        if isinstance(e, ast.Call) and (dotted(e.func) or "") in (f"{sf}.fun", f"{sf}.grad"):
            return evaluated(st, "f" if (dotted(e.func) or "").endswith(".fun") else "g")
        if isinstance(e, ast.Attribute) and src(e).startswith("checkpoint."):
            return S(CK) if e.attr in ("fun", "jac") else RAW
        if isinstance(e, ast.Name):
            return st.get(e.id, "?")
        if isinstance(e, ast.BinOp) and isinstance(e.op, ast.Div) and is_fac(e.right, st):
            u = unit_of(e.left, st)
            if u == S(cur(st)) or (u == RAW and cur(st) == ONE):
                return RAW
            return MIXED
        if isinstance(e, ast.BinOp) and isinstance(e.op, ast.Mult) and (is_fac(e.left, st) or is_fac(e.right, st)):
            other = e.left if is_fac(e.right, st) else e.right
            u = unit_of(other, st)
            return scaled_now(st) if u == RAW else DOUBLE
        return "?"

    def fac_source(v: Optional[ast.expr], st=None) -> str:
        if isinstance(v, ast.Call) and isinstance(v.func, ast.Name) and v.func.id == "gradient_scaler":
            return SC
        if isinstance(v, ast.Name) and st is not None and st.get(v.id) == ("SCALER-VALUE",):
            return SC
        if v is not None and any(isinstance(x, ast.Name) and x.id == "checkpoint" for x in ast.walk(v)):
            return CK
        return "?"

    def transfer(n: Node, st):
        defs = node_defs(n)
        if not defs:
            return st
        out = dict(st)
        s = n.ast
        for k, v, how in defs:
            if k in (f"{sf}.f", f"{sf}.g") and v is not None:
                out[f"$memo:{k[-1]}"] = unit_of(v, st)       # the cache primed from outside the wrapper
                continue
            if k == fac:
                out[FAC] = fac_source(v, st)
                if isinstance(v, ast.Name) and st.get(v.id) == ("SCALER-VALUE",):
                    out[v.id] = ("FACTOR-ALIAS", SC)      # the local now equals the wrapper's factor
                continue
            if k == mm.x:
                out.pop("$memo:f", None)
                out.pop("$memo:g", None)
            if "." in k:
                continue
            if how == "aug":
                if isinstance(s, ast.AugAssign) and isinstance(s.op, ast.Mult) and is_fac(s.value, st):
                    # the unit of what is being scaled is reported at the statement (obligation below); afterwards
                    # the value counts as scaled so that one cause gives one report
                    out[k] = scaled_now(st) if not n.loops else DOUBLE
                elif isinstance(s, ast.AugAssign) and isinstance(s.op, ast.Div) and is_fac(s.value, st):
                    out[k] = RAW if st.get(k) in (S(cur(st)), RAW) else MIXED
                continue
            if v is None:
                out.pop(k, None)
                continue
            if src(v) == fac:
                out[k] = ("FACTOR-ALIAS", cur(st))
                continue
            if isinstance(v, ast.Call) and isinstance(v.func, ast.Name) and v.func.id == "gradient_scaler":
                out[k] = ("SCALER-VALUE",)
                continue
            if isinstance(v, ast.Name) and isinstance(st.get(v.id), tuple):
                out[k] = st[v.id]
                continue
            if isinstance(v, ast.Call) and (dotted(v.func) or "") in (f"{sf}.fun", f"{sf}.grad", f"{sf}.fun_and_grad"):
                dn = (dotted(v.func) or "")
                which = "f" if dn.endswith(".fun") else "g"
                if dn.endswith("fun_and_grad"):
                    tg_ = s.targets[0] if isinstance(s, ast.Assign) else None
                    which = "g" if isinstance(tg_, ast.Tuple) and len(tg_.elts) == 2 and src(tg_.elts[1]) == k else "f"
                out[k] = evaluated(st, which)
                # a new point invalidates a primed cache
                if v.args and src(v.args[0]) != mm.x:
                    out.pop("$memo:f", None)
                    out.pop("$memo:g", None)
            elif isinstance(v, ast.Call) and isinstance(v.func, ast.Name) and v.func.id == "update_fun_def":
                # documented: the update function returns values in the unit it was given
                tg = s.targets[0] if isinstance(s, ast.Assign) else None
                idx = [src(e) for e in tg.elts].index(k) if isinstance(tg, ast.Tuple) and k in [src(e) for e in tg.elts] else None
                if idx is not None and idx < 3:
                    arg = v.args[1] if len(v.args) > 1 else None   # unit of f0 argument
                    out[k] = unit_of(arg, st) if arg is not None else "?"
            else:
                u = unit_of(v, st)
                if times_factor(v, k, st) and not n.loops:
                    u = scaled_now(st)
                if u != "?":
                    out[k] = u
                else:
                    out.pop(k, None)
        return out

    def join(a, b):
        if a == b:
            return a
        out = {}
        for k in set(a) | set(b):
            if k == FAC:
                x, y = a.get(FAC, ONE), b.get(FAC, ONE)
                # a factor of 1 is a special case of any factor: RAW values are upgraded below
                out[FAC] = x if x == y else (y if x == ONE else x if y == ONE else MIXED)
                continue
            if k in a and k in b:
                if a[k] == b[k]:
                    out[k] = a[k]
                elif isinstance(a[k], tuple) and isinstance(b[k], tuple) and ONE in (a[k][1], b[k][1]):
                    out[k] = a[k] if b[k][1] == ONE else b[k]      # a factor of 1 is a special case of any factor
                else:
                    out[k] = MIXED
            else:
                out[k] = MIXED
        # RAW on the branch where the factor is still 1 is SCALED[f] with f = 1
        fa, fb = a.get(FAC, ONE), b.get(FAC, ONE)
        if fa != fb and ONE in (fa, fb) and out.get(FAC) not in (ONE, MIXED):
            one, oth = (a, b) if fa == ONE else (b, a)
            for k in set(a) & set(b):
                if k != FAC and one[k] == RAW and oth[k] == S(out[FAC]):
                    out[k] = oth[k]
        return out

    obs: List[Ob] = []
    sites: Dict[Tuple[str, str], List[Tuple[str, bool, str, ast.AST]]] = {}

    def rec(inst: str, construct: str, mode: str, ok: bool, fact: str, node: ast.AST):
        sites.setdefault((inst, construct), []).append((mode, ok, fact, node))

    tgt_seen = 0
    for mode, ck_none in (("fresh run", True), ("restart", False)):
        MODE[:] = [ck_none]

        def refine(n, lab, st, ck_none=ck_none):
            if n.kind == "test" and lab in (True, False):
                a = _is_ckpt_atom(n.ast)
                if a is not None and (a == lab) != ck_none:
                    return None
            return st
        IN, OUT = forward(cfg, {}, transfer, join, refine, follow_exc=False)
        # scaling statements
        scal = [n for n in cfg.nodes if n in IN for k, v, how in node_defs(n)
                if k in (fn_, gn) and ((how == "aug" and isinstance(n.ast, ast.AugAssign) and is_fac(n.ast.value, IN[n])) or times_factor(v, k, IN[n]))]
        for k in (fn_, gn):
            mine = [n for n in scal if any(kk == k for kk, _, _ in node_defs(n))]
            if ck_none:
                ok = len(mine) == 1 and not mine[0].loops and OUT.get(mine[0], {}).get(k) in (S(SC), RAW)
                how_ = f"{len(mine)} scaling statement(s) reachable; unit afterwards: {OUT.get(mine[0], {}).get(k) if mine else '-'}"
                if not mine:
                    # no explicit scaling: the value must reach the loop scaled by the wrapper's factor some other way
                    # (re-evaluated through the wrapper once the factor is set)
                    heads = [n_ for n_ in cfg.nodes if n_.kind == "loophead" and n_.owner is mm.loop and n_ in IN]
                    st_h = IN.get(heads[0], {}) if heads else {}
                    ok = bool(heads) and st_h.get(k) == scaled_now(st_h)
                    how_ = f"no scaling statement; at the loop entry {k} is {st_h.get(k)} with the wrapper's factor = {cur(st_h)}"
                rec(f"{k} is scaled by the factor exactly once before the loop of a fresh run", f"{k} <- {k} * {fac}", mode, ok, how_,
                    mine[0].ast if mine else mm.f.node)
            for m in mine:
                uin = IN.get(m, {}).get(k, "?")
                oku = uin == RAW
                rec(f"what is scaled into {k} is an unscaled value", f"unit of {k} entering `{k} <- {k} * {fac}`", mode, oku,
                    f"unit of {k} before the scaling: {uin}" + ("" if oku else
                    ": a value read back from a checkpoint was stored after scaling by the producing run and is scaled a second time"
                    if "checkpoint" in uin or uin == MIXED else ""), m.ast)
        for n in cfg.nodes:
            if n not in IN:
                continue
            st = IN[n]
            for c in node_calls(n):
                d = (dotted(c.func) or "")
                where = "loop" if mm.in_loop(c) else "pre-loop"
                def by_name(call, qual, names):
                    """the arguments bound to the named parameters (definition order may differ from the reference)"""
                    g_ = ctx.repo.funcs.get(qual)
                    if g_ is not None and all(p_ in g_.params for p_ in names):
                        try:
                            b_ = bind_args(call, g_.node)
                            if all(p_ in b_ for p_ in names):
                                return [b_[p_] for p_ in names]
                        except AnalysisError:
                            pass
                    return list(call.args[:len(names)]) if len(call.args) >= len(names) else None
                if d == "is_f0_target_reached" and (c.args or c.keywords):
                    a_ = by_name(c, "main.is_f0_target_reached", ["f0"])
                    if a_ is None:
                        continue
                    c = copy.copy(c)
                    c.args = a_ + list(c.args[1:])
                    u = unit_of(c.args[0], st)
                    tgt_seen += 1
                    rec("target stop is tested on the unscaled value", f"is_f0_target_reached({short(c.args[0])}, ..) @{where}", mode, u == RAW,
                        f"unit({short(c.args[0])}) = {u} with the wrapper's factor = {cur(st)}" + ("" if u == RAW else ": ftarget is compared with a scaled value"), c)
                if d == "is_f0_min_change_reached" and by_name(c, "main.is_f0_min_change_reached", ["f0", "f0_old"]) is not None:
                    a_ = by_name(c, "main.is_f0_min_change_reached", ["f0", "f0_old"])
                    c = copy.copy(c)
                    c.args = a_ + list(c.args[2:])
                    u1, u2 = unit_of(c.args[0], st), unit_of(c.args[1], st)
                    rec("relative-change test compares like units", f"is_f0_min_change_reached({short(c.args[0])}, {short(c.args[1])}, ..)", mode,
                        u1 == u2 and (u1 == RAW or u1.startswith("SCALED")), f"units: {short(c.args[0])}={u1}, {short(c.args[1])}={u2}", c)
                if d.split(".")[-1] == "line_search" and len(c.args) >= 3:
                    us = [unit_of(c.args[1], st), unit_of(c.args[2], st)]
                    rec("line search receives the value and gradient scaled by the wrapper's factor", "line_search(f0, g0) units", mode,
                        us == [scaled_now(st)] * 2, f"units of (f0, g0): {us}; wrapper's factor: {cur(st)}", c)
                if d == "OptimizeResult":
                    us = [unit_of(kw(c, "fun"), st) if kw(c, "fun") is not None else "?", unit_of(kw(c, "jac"), st) if kw(c, "jac") is not None else "?"]
                    # zero-filled placeholder gradient of the "target reached at x0" exit has no unit
                    okr = us[0] == scaled_now(st) and us[1] in (scaled_now(st), "?")
                    rec("results carry fun and jac scaled by the wrapper's current factor", f"OptimizeResult(fun, jac) units @{where} line-rank {sorted(x.lineno for x in ast.walk(mm.f.node) if isinstance(x, ast.Call) and dotted(x.func) == 'OptimizeResult').index(c.lineno)}",
                        mode, okr, f"units of (fun, jac): {us}; wrapper's factor: {cur(st)}", c)
                if isinstance(c.func, ast.Name) and c.func.id == "gradient_scaler" and len(c.args) >= 2:
                    u = unit_of(c.args[1], st)
                    rec("the scaler receives an unscaled gradient", f"gradient_scaler(.., {short(c.args[1])}, ..)", mode, u == RAW and cur(st) == ONE,
                        f"unit({short(c.args[1])}) = {u}; wrapper's factor before the call: {cur(st)}" + ("" if u == RAW and cur(st) == ONE else
                        ": the factor is computed from an already scaled gradient (or replaces a factor the restored values were scaled with)"), c)
    need(tgt_seen >= 2, "UNITS: target tests not found")
    for (inst, construct), lst in sites.items():
        ok = all(o for _, o, _, _ in lst)
        bad = [(m, f_) for m, o, f_, _ in lst if not o]
        fact = "; ".join(f"[{m}] {f_}" for m, f_ in (bad or [(m, f_) for m, _, f_, _ in lst]))
        obs.append(ob("UNITS", inst, mm.f, lst[0][3], ok, fact, construct=construct))
    return obs


# ------------------------------------------------------------------ C18
def _diag_comprehension(ctx, f, hp):
    """the loop-free spelling: an array built from (H e_i)[i] for i, e_i in enumerate(identity(n))"""
    from ..flow import Expander
    rets = [r for r in walk_no_nested(f.node) if isinstance(r, ast.Return) and r.value is not None]
    if len(rets) != 1:
        return None
    ex = Expander(ctx, f)
    e = ex.expand_at(rets[0], rets[0].value)
    if isinstance(e, ast.Call) and dotted(e.func) in ("np.fromiter", "np.array", "np.asarray") and e.args:
        cnt = kw(e, "count")
        e0 = e.args[0]
    else:
        return None
    if isinstance(e0, ast.Call) and dotted(e0.func) in ("list", "tuple") and len(e0.args) == 1:
        e0 = e0.args[0]
    if not (isinstance(e0, (ast.GeneratorExp, ast.ListComp)) and len(e0.generators) == 1 and not e0.generators[0].ifs):
        return None
    g = e0.generators[0]
    it = g.iter
    obs = []
    iv = ev = nexp = None
    if isinstance(it, ast.Call) and dotted(it.func) == "enumerate" and len(it.args) == 1 and not it.keywords and isinstance(g.target, ast.Tuple) \
            and len(g.target.elts) == 2 and all(isinstance(t, ast.Name) for t in g.target.elts):
        iv, ev = g.target.elts[0].id, g.target.elts[1].id
        m = it.args[0]
        if isinstance(m, ast.Call) and dotted(m.func) in ("np.identity", "np.eye") and m.args and \
                all(k.arg in ("dtype",) for k in m.keywords) and len(m.args) == 1:
            nexp = src(m.args[0])
    okn = nexp in (f"{hp}.shape[0]", f"{hp}.shape[1]") and (cnt is None or src(ex.expand_at(rets[0], cnt)) == nexp)
    obs.append(ob("DIAG", "index ranges over all rows of the operator", f, rets[0], okn,
                  f"for {iv}, {ev} in {short(it)}; n = {nexp}", construct=f"for {iv}, {ev} in {short(it, 50)}"))
    obs.append(ob("DIAG", "probe is the i-th unit vector, re-created (or reset) in every iteration", f, rets[0], ev is not None and nexp is not None,
                  f"probe `{ev}` is row {iv} of the identity matrix of order {nexp}", construct=f"{ev} = identity[{iv}]"))
    el = e0.elt
    ok = False
    why = f"element {short(el)}"
    if isinstance(el, ast.Subscript) and ev is not None:
        prod = el.value
        isprod = (isinstance(prod, ast.Call) and isinstance(prod.func, ast.Attribute) and prod.func.attr in ("matvec", "dot", "_matvec")
                  and src(prod.func.value) == hp and [src(a) for a in prod.args] == [ev]) or \
                 (isinstance(prod, ast.BinOp) and isinstance(prod.op, ast.MatMult) and src(prod.left) == hp and src(prod.right) == ev)
        ok = isprod and src(el.slice) == iv
        why = f"{short(el)}: product of the operator with the probe={isprod}, read index={src(el.slice)}, position in the result = position in the enumeration"
    obs.append(ob("DIAG", "entry read and entry written are both index i of H e_i", f, rets[0], ok, why, construct=short(el)))
    return obs


@rule("DIAG", min_instances=3)
def rule_diag(ctx: Ctx) -> List[Ob]:
    """extract_hess_inv_diag returns the (i, i) entries: the probe is the i-th unit vector created
    afresh in every iteration, the entry read from the product and the entry written are both
    index i, and i ranges over range(n) with n = hess_inv.shape[0]"""
    f = ctx.repo.func("utils.extract_hess_inv_diag")
    obs: List[Ob] = []
    loops = [s for s in f.node.body if isinstance(s, ast.For)]
    hp = f.params[0]
    if not loops:
        got = _diag_comprehension(ctx, f, hp)
        need(got is not None, "DIAG: neither the loop nor a comprehension over the unit vectors was found")
        return got
    need(len(loops) == 1, "DIAG: loop not found")
    lp = loops[0]
    iv = lp.target.id if isinstance(lp.target, ast.Name) else None
    rng = lp.iter
    nname = src(rng.args[0]) if isinstance(rng, ast.Call) and dotted(rng.func) == "range" and len(rng.args) == 1 else None
    ndef = [s for s in f.node.body if isinstance(s, (ast.Assign, ast.AnnAssign)) and getattr(s, "value", None) is not None
            and nname is not None and src(s.targets[0] if isinstance(s, ast.Assign) else s.target) == nname]
    okn = iv is not None and nname is not None and (nname == f"{hp}.shape[0]" or (len(ndef) == 1 and src(ndef[0].value) in (f"{hp}.shape[0]", f"{hp}.shape[1]")))
    obs.append(ob("DIAG", "index ranges over all rows of the operator", f, lp, okn, f"for {iv} in {short(rng)}; {nname} = {short(ndef[0].value) if ndef else '?'}",
                  construct=f"for {iv} in {short(rng)}"))
    # probe vector
    vname = None
    for s in lp.body:
        if isinstance(s, ast.Assign) and isinstance(s.targets[0], ast.Subscript) and isinstance(s.value, ast.Constant) and s.value.value in (1, 1.0) \
                and src(s.targets[0].slice) == iv:
            vname = src(s.targets[0].value)
    fresh = vname is not None and any(isinstance(s, ast.Assign) and src(s.targets[0]) == vname and isinstance(s.value, ast.Call)
                                      and dotted(s.value.func) in ("np.zeros", "np.zeros_like") for s in lp.body)
    zero_before = vname is not None and any(isinstance(s, (ast.Assign, ast.AnnAssign)) and getattr(s, "value", None) is not None
                                            and src(s.targets[0] if isinstance(s, ast.Assign) else s.target) == vname
                                            and isinstance(s.value, ast.Call) and dotted(s.value.func) in ("np.zeros", "np.zeros_like")
                                            for s in f.node.body)
    reset = vname is not None and any(isinstance(s, ast.Assign) and isinstance(s.targets[0], ast.Subscript) and src(s.targets[0].value) == vname
                                      and isinstance(s.value, ast.Constant) and s.value.value in (0, 0.0) and src(s.targets[0].slice) == iv
                                      for s in lp.body)
    reset = reset and zero_before
    obs.append(ob("DIAG", "probe is the i-th unit vector, re-created (or reset) in every iteration", f, lp, bool(vname) and (fresh or reset),
                  f"probe `{vname}`: fresh per iteration={fresh}, reset after use={reset}" +
                  ("" if vname and (fresh or reset) else ": ones accumulate in the probe, later entries are sums of columns"),
                  construct=f"{vname}[{iv}] = 1.0 on a fresh zero vector"))
    # extraction
    ext = None
    for s in lp.body:
        if isinstance(s, ast.Assign) and isinstance(s.targets[0], ast.Subscript) and isinstance(s.value, ast.Subscript):
            ext = s
    ok = False
    why = "no statement `out[i] = product[i]`"
    if ext is not None and vname is not None:
        from ..flow import Expander
        prod = Expander(ctx, f).expand_at(ext, ext.value.value)
        isprod = (isinstance(prod, ast.Call) and isinstance(prod.func, ast.Attribute) and prod.func.attr in ("matvec", "dot", "_matvec")
                  and src(prod.func.value) == hp and [src(a) for a in prod.args] == [vname]) or \
                 (isinstance(prod, ast.BinOp) and isinstance(prod.op, ast.MatMult) and src(prod.left) == hp and src(prod.right) == vname)
        ok = isprod and src(ext.value.slice) == iv and src(ext.targets[0].slice) == iv
        why = f"{short(ext)}: product of the operator with the probe={isprod}, read index={src(ext.value.slice)}, write index={src(ext.targets[0].slice)}"
    obs.append(ob("DIAG", "entry read and entry written are both index i of H e_i", f, ext or lp, ok, why, construct=short(ext) if ext else "extraction"))
    return obs


@rule("SCALEPOS", min_instances=1)
def rule_scalepos(ctx: Ctx) -> List[Ob]:
    """the packaged gradient scaler returns a positive factor (1 / max |x - P(x - g)|): a negative
    factor would turn the minimisation into a maximisation"""
    from .sign import Signs, NONNEG, POS
    f = ctx.repo.func("utils.get_gradient_projection_unit_scaling")
    from ..flow import Expander
    ex = Expander(ctx, f)
    obs: List[Ob] = []
    for r in walk_no_nested(f.node):
        if isinstance(r, ast.Return) and r.value is not None:
            e = ex.expand_at(r, r.value)
            S = Signs("lbounds", "ubounds", {"x"})

            def sg(x):
                # max / np.max of a single array argument keeps the sign class of its elements
                if isinstance(x, ast.Call) and dotted(x.func) in ("max", "np.max", "np.amax", "np.nanmax", "np.linalg.norm") and len(x.args) >= 1:
                    if dotted(x.func) == "np.linalg.norm":
                        return NONNEG
                    return sg(x.args[0])
                if isinstance(x, ast.Call) and dotted(x.func) in ("abs", "np.abs", "np.absolute", "np.fabs"):
                    return NONNEG
                if isinstance(x, ast.BinOp) and isinstance(x.op, ast.Div):
                    a, b = sg(x.left), sg(x.right)
                    return NONNEG if a in (NONNEG, POS) and b in (NONNEG, POS) else "TOP"
                return S.sg(x)
            s0 = sg(e)
            ok = s0 in (NONNEG, POS)
            obs.append(ob("SCALEPOS", "scaling factor is positive", f, r, ok,
                          f"sign({short(e, 70)}) = {s0}" + ("" if ok else ": the factor can be negative (e.g. when every component of the projected step has the same sign)"),
                          construct="get_gradient_projection_unit_scaling: return value"))
    return obs


def factor_valued_names(f) -> Set[str]:
    """local names of function f that only ever hold the wrapper's scaling factor: every binding is a read of
    `<sf>.scaling_factor`, the value returned by gradient_scaler(...), or another such name"""
    def is_attr(e) -> bool:
        return isinstance(e, ast.Attribute) and e.attr == "scaling_factor"
    assigns: Dict[str, List[Optional[ast.expr]]] = {}
    for s_ in walk_no_nested(f.node):
        if isinstance(s_, (ast.Assign, ast.AnnAssign)) and getattr(s_, "value", None) is not None:
            for t in (s_.targets if isinstance(s_, ast.Assign) else [s_.target]):
                if isinstance(t, ast.Name):
                    assigns.setdefault(t.id, []).append(s_.value)
                elif isinstance(t, (ast.Tuple, ast.List)):
                    for e_ in ast.walk(t):
                        if isinstance(e_, ast.Name):
                            assigns.setdefault(e_.id, []).append(None)
        elif isinstance(s_, (ast.AugAssign, ast.For)):
            for e_ in ast.walk(s_.target):
                if isinstance(e_, ast.Name):
                    assigns.setdefault(e_.id, []).append(None)
        elif isinstance(s_, ast.With):
            for i_ in s_.items:
                if i_.optional_vars is not None:
                    for e_ in ast.walk(i_.optional_vars):
                        if isinstance(e_, ast.Name):
                            assigns.setdefault(e_.id, []).append(None)
    FV: Set[str] = set()
    changed = True
    while changed:
        changed = False
        for nm, vals in assigns.items():
            if nm in FV or nm in f.params:
                continue
            if vals and all(v is not None and (is_attr(v) or (isinstance(v, ast.Name) and v.id in FV) or
                                               (isinstance(v, ast.Call) and isinstance(v.func, ast.Name) and v.func.id == "gradient_scaler"))
                            for v in vals):
                FV.add(nm)
                changed = True
    return FV


@rule("SCALEUSE", min_instances=5)
def rule_scaleuse(ctx: Ctx) -> List[Ob]:
    """who-may-read the scaling factor: a scaler run equals the run on s*f exactly when s enters the solver only
    through the values f and g (the wrapper's accessors, the one initial scaling of f0 and grad) and through the
    un-scaling of the value compared with the target; every other use (step caps, theta, tolerances, ...) has no
    counterpart in the explicitly scaled run, where the factor is 1.  Local names that hold the factor (a copy of
    sf.scaling_factor, the value returned by the scaler) are followed."""
    obs: List[Ob] = []
    for q, f in ctx.repo.funcs.items():
        if q.startswith("scalar_function.ScalarFunction"):
            continue     # SF4 governs the accessors
        parents = {}
        for p_ in ast.walk(f.node):
            for ch in ast.iter_child_nodes(p_):
                parents[ch] = p_

        def is_attr(e) -> bool:
            return isinstance(e, ast.Attribute) and e.attr == "scaling_factor"

        FV = factor_valued_names(f)

        def classify(e):
            chain = [e]
            while chain[-1] in parents and not isinstance(chain[-1], ast.stmt):
                chain.append(parents[chain[-1]])
            st = chain[-1]
            par = chain[1] if len(chain) > 1 else None
            if any(isinstance(c, (ast.JoinedStr, ast.FormattedValue)) for c in chain) or \
                    any(isinstance(c, ast.Call) and (dotted(c.func) or "").split(".")[0] in ("logger", "logging", "print") for c in chain):
                return st, "display"
            if isinstance(st, ast.AugAssign) and isinstance(st.op, ast.Mult) and st.value is e and isinstance(st.target, ast.Name):
                return st, f"initial scaling of {st.target.id}"
            if isinstance(st, ast.Assign) and isinstance(st.value, ast.BinOp) and isinstance(st.value.op, ast.Mult) and par is st.value \
                    and len(st.targets) == 1 and isinstance(st.targets[0], ast.Name) and \
                    src(st.value.left if st.value.right is e else st.value.right) == st.targets[0].id:
                return st, f"initial scaling of {st.targets[0].id}"
            if isinstance(par, ast.BinOp) and isinstance(par.op, ast.Div) and par.right is e and len(chain) > 2 and \
                    isinstance(chain[2], ast.Call) and (dotted(chain[2].func) or "").split(".")[-1] == "is_f0_target_reached" and \
                    chain[2].args and chain[2].args[0] is par:
                return st, "un-scaling of the value compared with the target"
            if isinstance(par, ast.keyword) and par.arg == "scaling_factor" and par.value is e and len(chain) > 2 and \
                    isinstance(chain[2], ast.Call) and (dotted(chain[2].func) or "") == "OptimizeResult":
                return st, "recorded in a result, next to the values it scaled"
            if isinstance(st, (ast.Assign, ast.AnnAssign)) and st.value is e:
                tg = st.targets[0] if isinstance(st, ast.Assign) and len(st.targets) == 1 else getattr(st, "target", None)
                if isinstance(tg, ast.Name) and tg.id in FV:
                    return st, f"copied into the local `{tg.id}`, whose uses are classified like the factor"
                if is_attr(tg) and isinstance(e, ast.Name):
                    return st, "stored as the wrapper's factor (SCALER governs this write)"
            if isinstance(st, ast.Return) and st.value is e and f.qual not in ("main.minimize_lbfgsb",):
                return st, None
            return st, None

        occ = [e for e in walk_no_nested(f.node) if is_attr(e) and not isinstance(e.ctx, ast.Store)] + \
              [e for e in walk_no_nested(f.node) if isinstance(e, ast.Name) and e.id in FV and isinstance(e.ctx, ast.Load)]
        for e in occ:
            st, role = classify(e)
            ok = role is not None
            obs.append(ob("SCALEUSE", "the scaling factor is used only to scale f, g once and to un-scale the target test", f, e, ok,
                          role if ok else f"`{short(st, 90)}` uses the factor for something else: the run on the explicitly scaled objective (factor 1) has no counterpart",
                          construct=f"{f.qual}: {short(st, 70)}"))
    return obs


@rule("STPCAP", min_instances=1)
def rule_stpcap(ctx: Ctx) -> List[Ob]:
    """the step cap handed to DCSRCH / dcsrch is the value of max_allowed_steplength(x0, d, lb, ub, user cap, iteration) and
    nothing else: every definition of the variable in the stpmax slot that reaches the kernel is that call (reaching
    definitions over line_search).  A second writer (a tighter or looser cap) changes the trial steps of the reference run."""
    ls = ctx.repo.func("linesearch.line_search")
    obs: List[Ob] = []
    # ... and from nothing else: every definition of the variable in the stpmax slot that reaches DCSRCH / dcsrch is that call
    cfg_ls, rd_ls = ctx.cfg(ls), ctx.rd(ls)
    for c in walk_no_nested(ls.node):
        if isinstance(c, ast.Call) and ((dotted(c.func) or "").endswith("DCSRCH") or (dotted(c.func) or "").split(".")[-1] in ("dcsrch", "_iterate")):
            for a_ in list(c.args) + [k_.value for k_ in c.keywords]:
                if isinstance(a_, ast.Name) and a_.id == "max_steplength":
                    try:
                        n_ = cfg_ls.node_of(c)
                    except Exception:
                        continue
                    vals = rd_ls.value_exprs(n_, "max_steplength")
                    badv = [(d_, v_) for d_, v_, how_ in vals
                            if not (isinstance(v_, ast.Call) and (dotted(v_.func) or "").split(".")[-1] == "max_allowed_steplength")]
                    obs.append(ob("STPCAP", "the step cap handed to the line-search kernel is the maximum feasible step and nothing else", ls, c, not badv,
                                  (f"{len(vals)} reaching definition(s), each the call of max_allowed_steplength" if not badv else
                                   f"a definition at line {badv[0][0].line} (`{short(badv[0][1], 60) if badv[0][1] is not None else 'parameter'}`) reaches the kernel: "
                                   f"the cap is no longer the largest feasible step capped by the caller's limit"),
                                  construct=f"{(dotted(c.func) or '').split('.')[-1]}(stpmax <- max_allowed_steplength(..))"))
    need(obs, "STPCAP: no call of DCSRCH / dcsrch with max_steplength found in line_search")
    return obs
