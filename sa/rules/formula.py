"""CPFORM, BFGSFORM, SUBFORM, STEPFORM -- numerical kernels compared with their reference formulas up to
algebraic equivalence (symbolic execution into a linear-algebra normal form, sa.symalg).

These rules decide that the *formulas* are those of Byrd, Lu, Nocedal (1995) / Algorithm 778; they do
not decide anything about floating-point error.  A kernel that cannot be interpreted (new construct,
renamed working variable) is ANALYSIS-ERROR, never a pass and never a violation.
"""
from __future__ import annotations

import ast
import copy
from typing import Dict, List, Optional, Set, Tuple

import sympy as sp

from ..core import bind_args, canon_in, AnalysisError, Func, Ob, dotted, kw, need, ob, short, src, walk_no_nested
from ..runner import Ctx, rule
from ..symalg import Kernel, Sc, Vec, equal, vadd, vscale

S = sp.Symbol


def _sym(*names):
    return [sp.Symbol(n, real=True) for n in names]


def _is_advance(s: ast.stmt) -> bool:
    """the statement of the breakpoint loop that fetches the next breakpoint (try/except IndexError or if/else)"""
    if not isinstance(s, (ast.Try, ast.If)):
        return False
    return any(isinstance(x, ast.Assign) and src(x.targets[0]) == "t_cur" for x in ast.walk(s))


def _is_pinning(s: ast.stmt) -> bool:
    if not isinstance(s, ast.If):
        return False
    stores = [x for x in ast.walk(s) if isinstance(x, (ast.Assign, ast.AugAssign))]
    return bool(stores) and all(isinstance((x.targets[0] if isinstance(x, ast.Assign) else x.target), ast.Subscript) and
                                src((x.targets[0] if isinstance(x, ast.Assign) else x.target).value) == "x_cp" for x in stores)


def _top_targets(s: ast.stmt) -> List[str]:
    if isinstance(s, ast.Assign):
        return [src(t) for t in s.targets]
    if isinstance(s, (ast.AnnAssign, ast.AugAssign)):
        return [src(s.target)]
    return []


@rule("CPFORM", min_instances=8)
def rule_cpform(ctx: Ctx) -> List[Ob]:
    """generalized Cauchy point (Algorithm CP of Byrd-Lu-Nocedal): the initial f' = -d.d,
    f'' = -theta f' - p.M p, dt_min = -f'/f'', the per-breakpoint updates
    c += dt p; f' += dt f'' + g_b^2 + theta g_b z_b - g_b w_b.M c; f'' -= theta g_b^2 + 2 g_b w_b.M p +
    g_b^2 w_b.M w_b (floored at eps*f''_0); p += g_b w_b; dt_min = -f'/f'', and the final segment
    dt_min = max(dt_min, 0); t_old += dt_min; x_cp(free) = x + t_old d; c += dt_min p -- all decided up
    to algebraic equivalence, with and without a limited-memory matrix"""
    f = ctx.repo.func("cauchy.get_cauchy_point")
    obs: List[Ob] = []
    loops = [s for s in f.node.body if isinstance(s, (ast.While, ast.For))]
    need(len(loops) == 1, "CPFORM: breakpoint loop not found at function level")
    lp = loops[0]
    pre = f.node.body[: f.node.body.index(lp)]
    post = f.node.body[f.node.body.index(lp) + 1:]
    # two shapes of the same walk:  (W) `while _i < len(list)` with a priming read before the loop and an "advance"
    # statement (try / if) at the end of the body;  (F) `for ibp in list:` that reads t_cur = t[ibp] and computes
    # delta_t = t_cur - t_old at the top of the body, with `else: t_cur = inf`.
    for_form = isinstance(lp, ast.For)
    loop_body = list(lp.body)
    control_top: List[ast.stmt] = []
    if for_form:
        need(isinstance(lp.target, ast.Name), "CPFORM: loop target of the breakpoint walk is not a name")
        while loop_body and set(_top_targets(loop_body[0])) & {"t_cur", "delta_t"}:
            control_top.append(loop_body.pop(0))
        need(any("t_cur" in _top_targets(x) for x in control_top) and any("delta_t" in _top_targets(x) for x in control_top),
             "CPFORM: the for-form of the breakpoint walk does not start by reading t_cur and delta_t")
    theta, f1, f2, dt, gb, zb, f2o, eps, tcur, told = _sym("theta", "f1", "f2", "dt", "g_b", "z_b", "f2org", "eps", "t_cur", "t_old")
    for use in (True, False):
        tag = "with memory" if use else "empty memory"
        # ---------------- (a) initialisation
        K = Kernel(bindings={"mats.W.T @ d": Vec({"p": 1}), "np.zeros(p.size)": Vec({}), "mats.theta": Sc(theta),
                             "d": Vec({"d": 1}), "mats.invMfactors": Sc(0)},
                   conds={"mats.use_factor": use}, maps={"bmv": "M"})
        init_names = {"p", "c", "f_prime", "f_second", "f2_org", "delta_t_min"}
        sl = [s for s in pre if (set(_top_targets(s)) & init_names) or (isinstance(s, ast.If) and src(s.test) == "mats.use_factor")]
        need(len(sl) >= 5, "CPFORM: initialisation statements (p, c, f_prime, f_second, delta_t_min) not found")
        K.run(sl)
        dd = sp.Symbol("<d|d>")
        pMp = sp.Symbol("<p|M|p>") if use else 0
        ref = {"f_prime": Sc(-dd), "f_second": Sc(theta * dd - pMp), "delta_t_min": Sc(dd / (theta * dd - pMp)),
               "c": Vec({}), "p": Vec({"p": 1})}
        for nm, r in ref.items():
            need(nm in K.env, f"CPFORM: `{nm}` is not defined by the initialisation")
            ok, why = equal(K.env[nm], r)
            obs.append(ob("CPFORM", f"initial {nm} matches Algorithm CP ({tag})", f, sl[0], ok,
                          f"{nm} = {K.env[nm]}" + ("" if ok else f"; reference {r}; {why}"),
                          construct=f"init[{tag}] {nm}"))
        # ---------------- (b) one pass of the loop body
        body = []
        for s in loop_body:
            if _is_advance(s):
                break
            if _is_pinning(s):
                continue       # stores the bound into x_cp: decided by SIGN / PIN
            body.append(s)
        K = Kernel(bindings={"mats.W[ibp, :]": Vec({"w": 1}), "grad[ibp]": Sc(gb), "x_cp[ibp] - x[ibp]": Sc(zb),
                             "mats.theta": Sc(theta), "mats.invMfactors": Sc(0), "d[ibp]": Sc(S("d_b")),
                             # the floor factor written in place (its value is F2FLOOR's business, here it is the symbol eps)
                             "np.finfo(float).eps": Sc(eps), "np.finfo(np.float64).eps": Sc(eps), "sys.float_info.epsilon": Sc(eps)},
                   conds={"mats.use_factor": use, "delta_t_min < delta_t": False, "d[ibp] > 0": False, "d[ibp] < 0": False,
                          "d[ibp] != 0": False},
                   maps={"bmv": "M"}, ignore_stores={"d", "x_cp", "d[ibp]"})
        K.env.update({"f_prime": Sc(f1), "f_second": Sc(f2), "delta_t": Sc(dt), "p": Vec({"p": 1}), "c": Vec({"c": 1}),
                      "f2_org": Sc(f2o), "eps_f_sec": Sc(eps), "t_cur": Sc(tcur), "t_old": Sc(told),
                      "_i": Sc(S("i")), "nseg": Sc(S("nseg")), "delta_t_min": Sc(S("dtm"))})
        K.run(body)
        c1 = Vec({"c": 1, "p": dt})
        if use:
            wMc = sp.Symbol("<c|M|w>") + dt * sp.Symbol("<p|M|w>")
            wMp, wMw = sp.Symbol("<p|M|w>"), sp.Symbol("<w|M|w>")
        else:
            wMc = wMp = wMw = 0
        f1n = f1 + dt * f2 + gb ** 2 + theta * gb * zb - gb * wMc
        f2raw = f2 - theta * gb ** 2 - 2 * gb * wMp - gb ** 2 * wMw
        a, b = sorted([sp.expand(f2raw), sp.expand(eps * f2o)], key=sp.default_sort_key)
        f2n = sp.Function("max")(a, b)
        ref = {"c": c1, "f_prime": Sc(f1n), "f_second": Sc(f2n), "p": Vec({"p": 1, "w": gb}), "delta_t_min": Sc(-f1n / f2n),
               "t_old": Sc(tcur)}
        for nm, r in ref.items():
            ok, why = equal(K.env[nm], r)
            if not ok and isinstance(r, Sc):
                # the floor factor written as a literal (1e-30) instead of through a local name
                lits = [x for x in getattr(K.env[nm], "e", sp.Integer(0)).atoms(sp.Rational, sp.Float) if 0 < abs(x) < sp.Rational(1, 10**20)]
                for lit in lits:
                    ok, why = equal(K.env[nm], Sc(r.e.subs(eps, lit)))
                    if ok:
                        break
            obs.append(ob("CPFORM", f"breakpoint update of {nm} matches Algorithm CP ({tag})", f, lp, ok,
                          f"after one breakpoint {nm} = {K.env[nm]}" + ("" if ok else f"; reference {r}; {why}"),
                          construct=f"loop[{tag}] {nm}"))
    # ---------------- (c) final segment
    K = Kernel(bindings={"x": Vec({"x": 1}), "d": Vec({"d": 1})}, conds={}, maps={}, ignore_stores={"x_cp"})
    dtm = sp.Symbol("dtm", real=True)
    K.env.update({"delta_t_min": Sc(dtm), "t_old": Sc(told), "c": Vec({"c": 1}), "p": Vec({"p": 1}), "delta_t": Sc(dt),
                  "t_cur": Sc(tcur)})
    tail = [s for s in post if set(_top_targets(s)) & {"delta_t_min", "t_old", "c"} or
            (isinstance(s, ast.If) and any("delta_t_min" in _top_targets(x) for x in s.body) and
             not any(isinstance(y, ast.Name) and y.id in ("iprint", "logger") for y in ast.walk(s.test)))]
    need(len(tail) >= 2, "CPFORM: final-segment statements (delta_t_min clamp, t_old, c) not found")
    K.run(tail)
    pos = sp.Function("pos")(dtm)
    for nm, r in {"t_old": Sc(told + pos), "c": Vec({"c": 1, "p": pos})}.items():
        ok, why = equal(K.env[nm], r)
        obs.append(ob("CPFORM", f"final segment: {nm} advances by max(dt_min, 0)", f, tail[0], ok,
                      f"{nm} = {K.env[nm]}" + ("" if ok else f"; reference {r}; {why}"), construct=f"tail {nm}"))
    # free variables move to x + t_old * d
    st = [s for s in post if isinstance(s, ast.Assign) and isinstance(s.targets[0], ast.Subscript) and src(s.targets[0].value) == "x_cp"]
    need(len(st) == 1, "CPFORM: store of the free variables into x_cp after the loop not found")
    from ..flow import Expander, selection_like
    sx = Expander(ctx, f, only=selection_like)
    rhs = st[0].value
    mask_l, mask_r = src(sx.expand_at(st[0], st[0].targets[0].slice)), None
    while isinstance(rhs, ast.Subscript):
        mask_r = src(sx.expand_at(st[0], rhs.slice))
        rhs = rhs.value
    v = K.ev(rhs)
    ok, why = equal(v, Vec({"x": 1, "d": told + pos}))
    # the variables still free after the walk are exactly those whose direction component was not zeroed: a mask on the
    # breakpoint values (`t >= t_cur`) also selects a variable FIXED at a breakpoint tied with t_cur and puts it back at x
    # (finding 18)
    STILL_FREE = ("d != 0", "d != 0.0", "0 != d", "0.0 != d", "~(d == 0)", "~(d == 0.0)", "np.nonzero(d)", "d.nonzero()", "np.flatnonzero(d)",
                  "np.not_equal(d, 0)", "np.not_equal(d, 0.0)", "d.astype(bool)")
    okm = canon_in(mask_l, mask_r) and canon_in(mask_l, *STILL_FREE)
    obs.append(ob("CPFORM", "remaining free variables move to x + t d along the path", f, st[0], ok and okm,
                  f"x_cp[{mask_l}] = ({v})[{mask_r}]" + ("" if ok else f"; {why}") +
                  ("" if okm else "; masks differ / do not select exactly the variables whose direction component is non-zero "
                                  "(a mask on t also selects a variable fixed at a tied breakpoint)"),
                  construct="tail x_cp[d != 0] = (x + t_old * d)[d != 0]"))
    # ---------------- (d) loop control: segment length, counter, last segment
    tnext = sp.Symbol("t_next", real=True)
    after = []
    seen_try = False
    trys = [s for s in loop_body if _is_advance(s)]
    for s in loop_body:
        if _is_advance(s):
            seen_try = True
            continue
        if seen_try:
            after.append(s)
    if for_form:
        K = Kernel(bindings={f"t[{lp.target.id}]": Sc(tnext)}, conds={}, maps={})
        K.env.update({"t_old": Sc(tcur), "nseg": Sc(S("nseg")), "delta_t": Sc(dt)})
        K.run(control_top)
        after = control_top
    else:
        K = Kernel(bindings={}, conds={}, maps={})
        K.env.update({"t_cur": Sc(tnext), "t_old": Sc(tcur), "nseg": Sc(S("nseg")), "delta_t": Sc(dt)})
        K.run([s for s in after if set(_top_targets(s)) & {"delta_t", "t_old"}])
    ok, why = equal(K.env["delta_t"], Sc(tnext - tcur))
    obs.append(ob("CPFORM", "next segment length is (next breakpoint) - (current breakpoint)", f, after[0] if after else lp, ok,
                  f"delta_t = {K.env['delta_t']}" + ("" if ok else f"; {why}"), construct="loop delta_t = t_cur - t_old"))
    K = Kernel(bindings={f"t[{lp.target.id}]": Sc(tcur)} if for_form else {}, conds={}, maps={})
    K.env.update({"t_cur": Sc(tcur)})
    K.run([s for s in pre if set(_top_targets(s)) & {"t_old", "delta_t"}] + (control_top if for_form else []))
    ok = "t_old" in K.env and "delta_t" in K.env and equal(K.env["t_old"], Sc(0))[0] and equal(K.env["delta_t"], Sc(tcur))[0]
    obs.append(ob("CPFORM", "the path starts at t = 0 and the first segment ends at the first breakpoint", f, pre[-1], ok,
                  f"t_old = {K.env.get('t_old')}, delta_t = {K.env.get('delta_t')}", construct="init t_old = 0, delta_t = t_cur"))
    def _alt(a):
        return [x for h in a.handlers for x in h.body] if isinstance(a, ast.Try) else list(a.orelse)
    if for_form:
        # `else:` of the for runs exactly when the list is exhausted without the early exit
        trys = [lp]
        okh = any(isinstance(x, ast.Assign) and src(x.targets[0]) == "t_cur" and src(x.value) in ("np.inf", "float('inf')", "math.inf")
                  for x in lp.orelse) and \
            any(isinstance(x, (ast.Assign, ast.AnnAssign)) and "t_cur" in _top_targets(x) and isinstance(x.value, ast.Subscript) and src(x.value.value) == "t"
                and src(x.value.slice) == lp.target.id for x in control_top) and \
            any("delta_t" in _top_targets(x) for x in lp.orelse)
    else:
      okh = len(trys) == 1 and any(isinstance(x, ast.Assign) and src(x.targets[0]) == "t_cur" and src(x.value) in ("np.inf", "float('inf')", "math.inf")
                                 for x in _alt(trys[0])) and \
        any(isinstance(x, ast.Assign) and src(x.targets[0]) == "t_cur" and isinstance(x.value, ast.Subscript) and src(x.value.value) == "t"
            for x in trys[0].body)
    if okh and isinstance(trys[0], ast.If):
        from ..flow import Expander as _Ex2
        okh = src(_Ex2(ctx, f, only=lambda v: isinstance(v, ast.Name) or (isinstance(v, ast.Call) and dotted(v.func) == "len"))
                  .expand_at(trys[0].test, trys[0].test)).replace(" ", "") in ("_i<len(sorted_t_idx)", "len(sorted_t_idx)>_i")
    obs.append(ob("CPFORM", "after the last breakpoint the segment is unbounded (t_cur = inf)", f, trys[0] if trys else lp, okh,
                  "next breakpoint read from t; past the end of the list t_cur = inf" if okh else "the end-of-list case does not set t_cur to infinity",
                  construct="try: t_cur = t[ibp] except IndexError: t_cur = inf"))
    ctr_defs = [s for s in walk_no_nested(f.node) if isinstance(s, (ast.Assign, ast.AugAssign, ast.AnnAssign)) and "_i" in _top_targets(s)]
    from ..flow import Expander as _Ex
    fex = _Ex(ctx, f, only=lambda v: isinstance(v, ast.Name) or (isinstance(v, ast.Call) and dotted(v.func) == "len"))
    if for_form:
        it_src = src(fex.expand_at(lp, lp.iter)).replace(" ", "")
        guard_src = f"for {lp.target.id} in {it_src}"
        # every breakpoint once, in list order: no `continue`, and the walk target is not rebound in the body
        rebound = any(isinstance(x, ast.Name) and x.id == lp.target.id and isinstance(x.ctx, ast.Store) for b in lp.body for x in ast.walk(b))
        okc = it_src == "sorted_t_idx" and not rebound and not any(isinstance(x, ast.Continue) for b in lp.body for x in ast.walk(b)) and not ctr_defs
    else:
      gexp = fex.expand_at(lp.test, lp.test)
      guard_src = src(gexp).replace(" ", "")
      # the bound test, possibly in conjunction with "not yet found" flags (a flag can only end the walk earlier)
      from ..core import canon_in as _ci
      conj = gexp.values if isinstance(gexp, ast.BoolOp) and isinstance(gexp.op, ast.And) else [gexp]
      bound_ok = any(_ci(v_, "_i < len(sorted_t_idx)") for v_ in conj) and \
          all(_ci(v_, "_i < len(sorted_t_idx)") or isinstance(v_, ast.Name) or
              (isinstance(v_, ast.UnaryOp) and isinstance(v_.op, ast.Not) and isinstance(v_.operand, ast.Name)) for v_ in conj)
      okc = len(ctr_defs) == 2 and isinstance(ctr_defs[0], ast.Assign) and isinstance(ctr_defs[0].value, ast.Constant) and ctr_defs[0].value.value == 0 \
        and isinstance(ctr_defs[1], ast.AugAssign) and isinstance(ctr_defs[1].op, ast.Add) and isinstance(ctr_defs[1].value, ast.Constant) \
        and ctr_defs[1].value.value == 1 and ctr_defs[1] in lp.body and bound_ok
    obs.append(ob("CPFORM", "breakpoints are consumed one per iteration from the first", f, ctr_defs[0] if ctr_defs else lp, okc,
                  f"counter definitions {[short(x) for x in ctr_defs]}, guard `{guard_src}`", construct="_i = 0; while _i < len(list): ... _i += 1"))
    # the no-breakpoint shortcut is taken exactly when the list of positive breakpoints is empty
    early = [x for x in pre if isinstance(x, ast.If) and any(isinstance(y, ast.Return) for y in x.body)
             and not any(isinstance(y, ast.Name) and y.id in ("iprint", "logger") for y in ast.walk(x.test))]
    oke = len(early) == 1 and src(fex.expand_at(early[0].test, early[0].test)).replace(" ", "") in \
        ("len(sorted_t_idx)==0", "0==len(sorted_t_idx)", "notlen(sorted_t_idx)", "sorted_t_idx.size==0")
    obs.append(ob("CPFORM", "x is returned as Cauchy point only when no variable has a positive breakpoint", f, early[0] if early else lp, oke,
                  f"early return under `{src(fex.expand_at(early[0].test, early[0].test)) if early else '?'}`", construct="if nbreak == 0: return x_cp, c"))
    inf_set = [s for g in ctx.repo.funcs_in("cauchy") for s in walk_no_nested(g.node)
               if isinstance(s, ast.Assign) and isinstance(s.targets[0], ast.Subscript)
               and src(s.value) in ("np.inf", "float('inf')") and (canon_in(s.targets[0].slice, "grad == 0") or src(s.targets[0].slice).replace(" ", "") in ("~mask", "~nz"))]
    obs.append(ob("CPFORM", "variables with zero gradient never reach a bound (t = inf)", f, inf_set[0] if inf_set else pre[0], bool(inf_set),
                  short(inf_set[0]) if inf_set else "no statement t[grad == 0] = inf", construct="t[grad == 0] = np.inf"))
    # breakpoint times and direction
    K2 = Kernel(bindings={}, conds={}, maps={})
    dsrc = [s for s in pre if _top_targets(s) == ["d"]]
    need(len(dsrc) == 1, "CPFORM: definition of the projected steepest-descent direction d not found")
    dv = dsrc[0].value
    okd = isinstance(dv, ast.Call) and dotted(dv.func) == "np.where" and len(dv.args) == 3 and \
        canon_in(dv.args[0], "t == 0") and canon_in(dv.args[1], "0") and canon_in(dv.args[2], "-grad")
    obs.append(ob("CPFORM", "direction is -g on variables with a positive breakpoint, 0 on the others", f, dsrc[0], okd,
                  f"d = {short(dv)}", construct="d = where(t == 0, 0, -grad)"))
    return obs


class _StripSub(ast.NodeTransformer):
    def visit_Subscript(self, node):
        return self.visit(node.value)


def _componentwise(e: ast.expr, names: Dict[str, sp.Symbol]) -> Sc:
    e2 = _StripSub().visit(ast.parse(src(e), mode="eval").body)
    K = Kernel(bindings={k: Sc(v) for k, v in names.items()}, conds={}, maps={})
    v = K.ev(e2)
    if not isinstance(v, Sc):
        raise AnalysisError(f"componentwise formula `{short(e)}` is not scalar")
    return v


@rule("RATIOFORM", min_instances=6)
def rule_ratioform(ctx: Ctx) -> List[Ob]:
    """the three bound-ratio formulas are exactly (bound - point) / direction componentwise:
    breakpoints t_i = (x_i - u_i)/g_i for g_i < 0, (x_i - l_i)/g_i for g_i > 0 (Cauchy),
    maximum step (u_i - x_i)/d_i for d_i > 0, (l_i - x_i)/d_i for d_i < 0 (line search, subspace)"""
    obs: List[Ob] = []
    x, lb, ub, g, d = _sym("x", "lb", "ub", "g", "d")
    sites = [("cauchy.get_cauchy_point", {"x": x, "lb": lb, "ub": ub, "grad": g}, "grad",
              {"neg": (x - ub) / g, "pos": (x - lb) / g}),
             ("linesearch.max_allowed_steplength", {"x": x, "lb": lb, "ub": ub, "d": d}, "d",
              {"pos": (ub - x) / d, "neg": (lb - x) / d}),
             ("subspacemin.subspace_minimization", {"xc": x, "lb": lb, "ub": ub, "dHat": d}, "dHat",
              {"pos": (ub - x) / d, "neg": (lb - x) / d})]
    for q, names, dirn, ref in sites:
      ctx.repo.func(q)    # anchor
      n = 0
      for f in ctx.repo.funcs_in(q.split(".")[0]):
        if not ("lb" in f.params and "ub" in f.params):
            continue
        from ..flow import Expander, bound_ratio_like
        ex = Expander(ctx, f, only=bound_ratio_like)
        parents = {id(c): p for p in ast.walk(f.node) for c in ast.iter_child_nodes(p)}
        for w in walk_no_nested(f.node):
            if isinstance(w, ast.Call) and dotted(w.func) == "np.where" and len(w.args) == 3 and \
                    any(isinstance(y, ast.Name) and y.id in ("lb", "ub") for a in w.args[1:] for y in ast.walk(ex.expand_at(w, a))):
                from .sign import find_denominator
                denom = find_denominator(f, w, parents)
                site = w
                w = ex.expand_at(site, w)
                denom = ex.expand_at(site, denom) if denom is not None else None
                c = w.args[0]
                if not (isinstance(c, ast.Compare) and len(c.ops) == 1):
                    continue
                true_is_pos = isinstance(c.ops[0], (ast.Gt, ast.GtE))
                for br, lab in ((w.args[1], "pos" if true_is_pos else "neg"), (w.args[2], "neg" if true_is_pos else "pos")):
                    n += 1
                    e = br if denom is None else ast.BinOp(left=br, op=ast.Div(), right=denom)
                    v = _componentwise(e, names)
                    ok, why = equal(v, Sc(ref[lab]))
                    obs.append(ob("RATIOFORM", f"bound ratio for {dirn} {'>' if lab == 'pos' else '<'} 0 is (bound - point)/direction",
                                  f, site, ok, f"{short(e, 60)} = {v.e}" + ("" if ok else f"; reference {ref[lab]}; {why}"),
                                  construct=f"{f.name}: ratio[{dirn}{'>' if lab == 'pos' else '<'}0] {short(e, 50)}"))
      need(n == 2, f"RATIOFORM: expected one bound-ratio np.where in module {q.split('.')[0]}, found {n // 2}")
    return obs


# ------------------------------------------------------------------ matrix expressions (C10)
def _mx(e: ast.expr, env: Dict[str, tuple]):
    """canonical form of a small matrix expression"""
    k = src(e)
    if k in env:
        return env[k]
    if isinstance(e, ast.Attribute) and e.attr == "T":
        return _T(_mx(e.value, env))
    if isinstance(e, (ast.Name, ast.Attribute)):
        return ("sym", k)
    if isinstance(e, ast.BinOp) and isinstance(e.op, ast.MatMult):
        return ("mm", _mx(e.left, env), _mx(e.right, env))
    if isinstance(e, ast.BinOp) and isinstance(e.op, ast.Mult):
        a, b = _mx(e.left, env), _mx(e.right, env)
        return ("sc",) + tuple(sorted([a, b], key=repr))
    if isinstance(e, ast.UnaryOp) and isinstance(e.op, ast.USub):
        return ("neg", _mx(e.operand, env))
    if isinstance(e, ast.Call):
        d = dotted(e.func) or ""
        if isinstance(e.func, ast.Attribute) and e.func.attr == "dot" and len(e.args) == 1 and not d.startswith("np."):
            return ("mm", _mx(e.func.value, env), _mx(e.args[0], env))
        if d == "np.transpose" and len(e.args) == 1:
            return _T(_mx(e.args[0], env))
        if d == "np.diff" and e.args:
            ax = kw(e, "axis") or (e.args[2] if len(e.args) > 2 else None)
            inner = e.args[0]
            while isinstance(inner, ast.Call) and dotted(inner.func) in ("np.array", "np.asarray", "np.vstack", "np.stack") and inner.args:
                inner = inner.args[0]
            return ("diff", src(inner), src(ax) if ax is not None else "-1")
        if d == "np.tril" and e.args:
            kk = e.args[1] if len(e.args) > 1 else kw(e, "k")
            return ("tril", _mx(e.args[0], env), src(kk) if kk is not None else "0")
        if d == "np.diag" and len(e.args) == 1:
            inner = _mx(e.args[0], env)
            if inner[0] == "diagv":
                return ("diagm", inner[1])
            return ("diagv", inner)
        if d in ("np.hstack", "np.vstack", "np.column_stack") and len(e.args) == 1 and isinstance(e.args[0], (ast.List, ast.Tuple)):
            return (d[3:],) + tuple(_mx(x, env) for x in e.args[0].elts)
        if d.split(".")[-1] == "form_invMfactors":
            order = ["theta", "STS", "L", "D"]
            vals = {order[i]: a for i, a in enumerate(e.args) if i < 4}
            for k_ in e.keywords:
                if k_.arg in order:
                    vals[k_.arg] = k_.value
            return ("form_invMfactors",) + tuple(_mx(vals[o], env) if o in vals else ("missing", o) for o in order)
    return ("opaque", k)


def _T(m):
    if m[0] == "T":
        return m[1]
    if m[0] == "mm":
        return ("mm", _T(m[2]), _T(m[1]))
    if m[0] in ("sc",):
        return ("sc",) + tuple(sorted([x if x[0] == "sym" and "theta" in x[1] else _T(x) for x in m[1:]], key=repr))
    return ("T", m)


@rule("BFGSFORM", min_instances=7)
def rule_bfgsform(ctx: Ctx) -> List[Ob]:
    """the compact L-BFGS matrices are assembled from the stored histories as in Byrd-Nocedal-Schnabel:
    theta = y.y / s.y of the NEWEST pair (s = X[-1]-X[-2], y = G[-1]-G[-2]); S = diff(X)^T, Y = diff(G)^T;
    L = strict lower triangle of S^T Y, D = its diagonal; W = [Y, theta S]; the middle-matrix factors are
    built from (theta, S^T S, L, D) in that order"""
    f = ctx.repo.func("bfgsmats.update_lbfgs_matrices")
    obs: List[Ob] = []
    gate = [s for s in f.node.body if isinstance(s, ast.If) and "is_force_update" in src(s.test)]
    need(len(gate) == 1, "BFGSFORM: acceptance gate of update_lbfgs_matrices not found")
    body = gate[0].body
    if all(isinstance(x, (ast.Return, ast.Pass)) for x in body) and not gate[0].orelse:
        # inverted guard: `if not (forced or accepted): return mats` followed by the update
        body = f.node.body[f.node.body.index(gate[0]) + 1:]
    elif all(isinstance(x, (ast.Return, ast.Pass)) for x in body) and gate[0].orelse:
        body = gate[0].orelse
    # theta through the scalar/vector kernel
    K = Kernel(bindings={"G[-1]": Vec({"g1": 1}), "G[-2]": Vec({"g0": 1}), "X[-1]": Vec({"x1": 1}), "X[-2]": Vec({"x0": 1})},
               conds={}, maps={}, ignore_stores={"mats"})
    th = None
    for s in body:
        tg = _top_targets(s)
        if tg == ["mats.theta"]:
            th = K.ev(s.value)
            break
        if isinstance(s, (ast.Assign, ast.AnnAssign)) and len(tg) == 1 and "." not in tg[0]:
            try:
                K.stmt(s)
            except AnalysisError:
                pass
    # who may write the scaling: only the accepted / forced update (a rejected pair leaves theta, W and the factors as they are)
    inside_ = {id(x) for b_ in body for x in ast.walk(b_)}
    stray = [s_ for s_ in walk_no_nested(f.node) if isinstance(s_, (ast.Assign, ast.AugAssign, ast.AnnAssign))
             and any(isinstance(t_, ast.Attribute) and t_.attr == "theta" for t_ in (s_.targets if isinstance(s_, ast.Assign) else [s_.target]))
             and id(s_) not in inside_]
    for s_ in stray:
        obs.append(ob("BFGSFORM", "theta is only updated together with the accepted pair", f, s_, False,
                      f"`{short(s_, 70)}` lies outside the accepted / forced update: after a rejected pair theta no longer matches W and the factors of M",
                      construct=f"stray write {short(s_, 50)}"))
    if stray and th is None:
        return obs
    need(th is not None, "BFGSFORM: assignment of mats.theta not found")
    yv = Vec({"g1": 1, "g0": -1})
    sv = Vec({"x1": 1, "x0": -1})
    ref = Sc(K.dot(yv, yv).e / K.dot(sv, yv).e)
    ok, why = equal(th, ref)
    obs.append(ob("BFGSFORM", "theta = y.y / s.y of the newest pair", f, body[0], ok,
                  f"theta = {th.e}" + ("" if ok else f"; reference {ref.e}"), construct="mats.theta = yTy / sTy (newest pair)"))
    # matrices
    env: Dict[str, tuple] = {}
    got: Dict[str, tuple] = {}
    # any scalar local that holds theta (theta = yTy / sTy; mats.theta = theta) is the symbol theta
    theta_names = set()
    for s in body:
        if isinstance(s, (ast.Assign, ast.AnnAssign)) and getattr(s, "value", None) is not None:
            t = s.targets[0] if isinstance(s, ast.Assign) else s.target
            if src(t) == "mats.theta" and isinstance(s.value, ast.Name):
                theta_names.add(s.value.id)
    for s in body:
        if isinstance(s, (ast.Assign, ast.AnnAssign)) and getattr(s, "value", None) is not None:
            t = s.targets[0] if isinstance(s, ast.Assign) else s.target
            k = src(t)
            if k in ("mats.theta",) or k in theta_names:
                env[k] = ("sym", "theta")
                continue
            if k.startswith("mats.") or isinstance(t, ast.Name):
                v = _mx(s.value, env)
                env[k] = v
                got.setdefault(k, v) if k != "mats.L" else got.__setitem__(k, v)
    dX, dG = ("diff", "X", "0"), ("diff", "G", "0")
    S, Y = ("T", dX), ("T", dG)
    STY = ("mm", dX, Y)           # S^T Y with S^T = dX
    refs = {"mats.S": S, "mats.Y": Y, "mats.L": ("tril", STY, "-1"), "mats.D": ("diagm", STY),
            "mats.W": ("hstack", Y, ("sc",) + tuple(sorted([("sym", "theta"), S], key=repr))),
            "mats.invMfactors": ("form_invMfactors", ("sym", "theta"), ("mm", dX, S), ("tril", STY, "-1"), ("diagm", STY))}
    for k, r in refs.items():
        v = got.get(k)
        okk = v == r
        obs.append(ob("BFGSFORM", f"{k} is assembled as in the compact representation", f, body[0], okk,
                      f"{k} = {v}" + ("" if okk else f"; reference {r}"), construct=f"{k} assembly"))
    return obs


@rule("FILTERWALK", min_instances=2)
def rule_filterwalk(ctx: Ctx) -> List[Ob]:
    """the curvature filter visits every stored point older than the newest one, from the newest to
    the oldest: with L = len(X) it examines the indices L-2, L-3, ..., 0 (a `for i in range(L-1)` with
    index L-2-i, or a `while k >= 0` walk starting at L-2 and decreasing by one)"""
    f = ctx.repo.func("bfgsmats.make_X_and_G_respect_strong_wolfe")
    obs: List[Ob] = []
    Xp = f.params[0]
    L, i = sp.Symbol("L", integer=True), sp.Symbol("i", integer=True)
    loops = [s for s in f.node.body if isinstance(s, (ast.For, ast.While))]
    need(len(loops) == 1, "FILTERWALK: loop not found")
    lp = loops[0]
    K = Kernel(bindings={f"len({Xp})": Sc(L)}, conds={}, maps={})
    for st in f.node.body[: f.node.body.index(lp)]:
        if isinstance(st, (ast.Assign, ast.AnnAssign)) and getattr(st, "value", None) is not None and \
                isinstance((st.targets[0] if isinstance(st, ast.Assign) else st.target), ast.Name):
            try:
                K.stmt(st)
            except AnalysisError:
                pass
    used = {src(x.slice) for x in ast.walk(lp) if isinstance(x, ast.Subscript) and src(x.value) == Xp}
    if isinstance(lp, ast.For):
        rng = lp.iter
        rev = False
        tgt = lp.target
        counter = None
        if isinstance(rng, ast.Call) and dotted(rng.func) == "enumerate" and rng.args and isinstance(tgt, ast.Tuple) and len(tgt.elts) == 2 \
                and all(isinstance(t_, ast.Name) for t_ in tgt.elts):
            # for c, k in enumerate(E, start=s): k walks E, c = s + visit number
            st_ = kw(rng, "start") or (rng.args[1] if len(rng.args) > 1 else ast.Constant(0))
            counter = (tgt.elts[0].id, st_)
            rng, tgt = rng.args[0], tgt.elts[1]
        lp = copy.copy(lp)
        lp.target = tgt
        if isinstance(rng, ast.Call) and dotted(rng.func) == "reversed" and len(rng.args) == 1:
            rng, rev = rng.args[0], True
        elif isinstance(rng, ast.Call) and dotted(rng.func) == "range" and len(rng.args) == 3 and src(rng.args[1]) == "-1" and src(rng.args[2]) == "-1" \
                and isinstance(rng.args[0], ast.BinOp) and isinstance(rng.args[0].op, ast.Sub) and src(rng.args[0].right) == "1":
            # range(N - 1, -1, -1)
            rng, rev = ast.Call(func=rng.func, args=[rng.args[0].left], keywords=[]), True
        okr = isinstance(rng, ast.Call) and dotted(rng.func) == "range" and len(rng.args) == 1 and isinstance(lp.target, ast.Name)
        n_it = K.ev(rng.args[0]) if okr else None
        first = None
        if not okr and isinstance(rng, ast.Call) and dotted(rng.func) == "range" and len(rng.args) == 3 and src(rng.args[2]) == "-1" \
                and isinstance(lp.target, ast.Name) and not rev:
            # range(a, b, -1): a, a-1, ..., b+1  -- a - b visits, the i-th visit is a - i
            try:
                a_, b_ = K.ev(rng.args[0]), K.ev(rng.args[1])
                n_it = Sc(sp.expand(a_.e - b_.e))
                first = a_
                okr = True
            except AnalysisError:
                okr = False
        ok = okr and equal(n_it, Sc(L - 1))[0]
        obs.append(ob("FILTERWALK", "one visit per stored point older than the newest", f, lp, bool(ok),
                      f"range({n_it.e if n_it is not None else '?'}) with L = len({Xp})", construct="walk over the older points: count"))
        okk, v = False, None
        if okr:
            K.env[lp.target.id] = Sc(first.e - i) if first is not None else Sc(n_it.e - 1 - i) if rev else Sc(i)
            if counter is not None:
                try:
                    K.env[counter[0]] = Sc(K.ev(counter[1]).e + i)
                except AnalysisError:
                    pass
            for s in lp.body:
                if isinstance(s, (ast.Assign, ast.AnnAssign)) and isinstance((s.targets[0] if isinstance(s, ast.Assign) else s.target), ast.Name):
                    try:
                        K.stmt(s)
                    except AnalysisError:
                        pass      # not index arithmetic (e.g. a local name for the visited point)
            if len(used) == 1:
                v = K.ev(ast.parse(list(used)[0], mode="eval").body)
                okk = equal(v, Sc(L - 2 - i))[0]
        obs.append(ob("FILTERWALK", "points are visited from the second newest down to the oldest", f, lp, bool(okk),
                      f"index expression(s) {sorted(used)} = {v.e if v is not None else '?'} (reference L - 2 - i)",
                      construct="walk over the older points: index"))
    else:
        # while k >= 0: ... k -= 1   with k = L - 2 before the loop
        t = lp.test
        kname = None
        if isinstance(t, ast.Compare) and len(t.ops) == 1 and isinstance(t.left, ast.Name) and isinstance(t.comparators[0], ast.Constant):
            if (isinstance(t.ops[0], ast.GtE) and t.comparators[0].value == 0) or (isinstance(t.ops[0], ast.Gt) and t.comparators[0].value == -1):
                kname = t.left.id
        ok = kname is not None and kname in K.env and equal(K.env[kname], Sc(L - 2))[0]
        obs.append(ob("FILTERWALK", "one visit per stored point older than the newest", f, lp, bool(ok),
                      f"while {short(t)} with {kname} = {K.env.get(kname).e if kname in K.env else '?'} before the loop",
                      construct="walk over the older points: count"))
        cfg = ctx.cfg(f)
        from ..flow import node_defs
        decs = [n for n in cfg.nodes if cfg.in_loop(n, lp) for k2, v2, how in node_defs(n) if k2 == kname]
        okd = len(decs) == 1 and isinstance(decs[0].ast, ast.AugAssign) and isinstance(decs[0].ast.op, ast.Sub) and \
            isinstance(decs[0].ast.value, ast.Constant) and decs[0].ast.value.value == 1
        if okd:
            head = [n for n in cfg.nodes if n.kind == "loophead" and n.owner is lp][0]
            okd = not cfg.exists_path_avoiding(head, head, lambda m: m is decs[0] or not cfg.in_loop(m, lp))
            # the index must not be used after the decrement within the iteration
            after = cfg.reachable(decs[0], avoid=lambda m: m.kind == "loophead", follow_exc=False)
            okd = okd and not any(kname in {x.id for e in ([m.ast] if m.ast is not None else []) for x in ast.walk(e) if isinstance(x, ast.Name)}
                                  for m in after if cfg.in_loop(m, lp) and m.kind != "loophead" and m.kind != "test" or (m.kind == "test" and m.owner is not lp and m in after and False))
        okk = okd and used == {kname}
        obs.append(ob("FILTERWALK", "points are visited from the second newest down to the oldest", f, lp, bool(okk),
                      f"index expression(s) {sorted(used)}; `{kname}` decreases by one on every path of the body: {okd}",
                      construct="walk over the older points: index"))
    return obs


@rule("STEPINIT", min_instances=4)
def rule_stepinit(ctx: Ctx) -> List[Ob]:
    """line-search set-up of Algorithm 778 (with the port's documented first-iteration cap): initial
    step min(1/||d||, stpmax) on the first iteration of an unboxed problem and 1 otherwise; initial
    slope g0.d; maximum step 1 on the first iteration, else min(user cap, smallest finite bound
    ratio); the search is a failure unless dcsrch ends with CONVERGENCE or WARNING and the step is a
    finite non-zero number"""
    f = ctx.repo.func("linesearch.line_search")
    obs: List[Ob] = []
    smax = sp.Symbol("stpmax", real=True)
    from ..core import bool_equiv
    init_stmt, t = None, None
    for st in f.node.body:
        if isinstance(st, ast.If) and any(isinstance(x, ast.Assign) and src(x.targets[0]) == "steplength_0" for x in st.body):
            init_stmt, t = st, st.test
        if isinstance(st, (ast.Assign, ast.AnnAssign)) and _top_targets(st) == ["steplength_0"] and isinstance(st.value, ast.IfExp):
            init_stmt, t = st, st.value.test
    need(init_stmt is not None, "STEPINIT: initial step selection not found")
    okc = bool_equiv(t, "above_iter == 0 and not is_boxed")
    flipped = bool_equiv(t, "not (above_iter == 0 and not is_boxed)")
    obs.append(ob("STEPINIT", "short first step only on iteration 0 of a problem with an infinite bound", f, init_stmt, okc or flipped,
                  f"condition `{short(t)}`", construct="if above_iter == 0 and not is_boxed"))
    for outcome, ref in ((True, None), (False, Sc(1))):
        K = Kernel(bindings={"d": Vec({"d": 1}), "g0": Vec({"g0": 1})}, conds={src(t): (outcome != flipped)}, maps={})
        K.env["max_steplength"] = Sc(smax)
        K.run([init_stmt])
        v = K.env.get("steplength_0")
        if outcome:
            a, b = sorted([sp.expand(1 / sp.sqrt(sp.Symbol("<d|d>"))), sp.expand(smax)], key=sp.default_sort_key)
            ref = Sc(sp.Function("min")(a, b))
        else:
            # the unit step, but never beyond the largest feasible step: by rounding the bound ratio of the variable that
            # blocks the subspace step can come out one ulp below 1, dcsrch then refuses a start with stp > stpmax, the search
            # is lost and the memory rebooted -- a last-bit difference (e.g. in a restored memory) changes the next iterate
            a, b = sorted([sp.Integer(1), sp.expand(smax)], key=sp.default_sort_key)
            ref = Sc(sp.Function("min")(a, b))
        ok = v is not None and equal(v, ref)[0]
        why_ = ""
        if not ok and not outcome and v is not None and equal(v, Sc(1))[0]:
            why_ = ": the plain unit step can exceed stpmax by an ulp (finding 15)"
        obs.append(ob("STEPINIT", f"initial step ({'first unboxed iteration' if outcome else 'otherwise'})", f, init_stmt, ok,
                      f"steplength_0 = {v.e if v is not None else '?'}" + ("" if ok else f"; reference {ref.e}{why_}"),
                      construct=f"steplength_0 [{outcome}]"))
    # what the first dcsrch call receives: the start value and the slope g0.d (located by dataflow, not by name)
    from ..flow import Expander
    cfg, rd = ctx.cfg(f), ctx.rd(f)
    ex = Expander(ctx, f)
    loops = [x for x in f.node.body if isinstance(x, ast.While)]
    need(len(loops) == 1, "STEPINIT: trial loop not found")
    its = [c for c in ast.walk(loops[0]) if isinstance(c, ast.Call) and isinstance(c.func, ast.Attribute) and c.func.attr == "_iterate" and len(c.args) >= 3]
    need(len(its) == 1, "STEPINIT: DCSRCH._iterate call not found in the trial loop")
    n_it = cfg.node_of(its[0])
    got = {}
    for slot, a in (("f", its[0].args[1]), ("g", its[0].args[2])):
        vals = []
        if isinstance(a, ast.Name):
            for dn, v, how in rd.value_exprs(n_it, a.id):
                if v is not None and not cfg.in_loop(dn, loops[0]):
                    vals.append(src(ex.expand(dn, v, 6)).replace(" ", ""))
        got[slot] = vals
    ok = got["f"] == ["f0"] and got["g"] in (["g0.dot(d)"], ["d.dot(g0)"], ["np.dot(g0,d)"], ["g0@d"])
    obs.append(ob("STEPINIT", "dcsrch is started with f(x0) and the slope g0.d", f, its[0], ok,
                  f"values reaching the first _iterate call from before the loop: f <- {got['f']}, g <- {got['g']}",
                  construct="first dcsrch call: (f0, g0.dot(d))"))
    g = ctx.repo.func("linesearch.max_allowed_steplength")
    # on the first iteration (n_iter == 0) every reachable return is the constant 1.0; on later iterations none is a constant
    gcfg0 = ctx.cfg(g)
    itp = g.params[5] if len(g.params) > 5 else "n_iter"

    def _first_iter_atom(t) -> Optional[bool]:
        """True if the atom holds exactly on the first iteration, False if exactly on the others"""
        if isinstance(t, ast.Compare) and len(t.ops) == 1:
            l, r_ = t.left, t.comparators[0]
            if isinstance(r_, ast.Name) and isinstance(l, ast.Constant):
                l, r_ = r_, l
            if isinstance(l, ast.Name) and l.id == itp and isinstance(r_, ast.Constant) and r_.value == 0:
                if isinstance(t.ops[0], ast.Eq):
                    return True
                if isinstance(t.ops[0], (ast.NotEq, ast.Gt)):
                    return False
            if isinstance(l, ast.Name) and l.id == itp and isinstance(r_, ast.Constant) and r_.value == 1 and isinstance(t.ops[0], ast.Lt):
                return True
            if isinstance(l, ast.Name) and l.id == itp and isinstance(r_, ast.Constant) and r_.value == 1 and isinstance(t.ops[0], ast.GtE):
                return False
        return None
    atoms = [(n_, _first_iter_atom(n_.ast)) for n_ in gcfg0.nodes if n_.kind == "test" and _first_iter_atom(n_.ast) is not None]
    rets_g = [n_ for n_ in gcfg0.nodes if isinstance(n_.ast, ast.Return)]

    def _reach(first_iteration: bool):
        def edge_ok(a, b, lab):
            for n_, holds_first in atoms:
                if a is n_ and lab in (True, False) and (lab == holds_first) != first_iteration:
                    return False
            return True
        r_ = gcfg0.reachable(gcfg0.entry, follow_exc=False, edge_ok=edge_ok)
        return [n_ for n_ in rets_g if n_ in r_]
    r_first, r_later = _reach(True), _reach(False)

    def _is_one(n_):
        v_ = n_.ast.value
        return isinstance(v_, ast.Constant) and not isinstance(v_.value, bool) and v_.value == 1
    ok1 = bool(atoms) and bool(r_first) and all(_is_one(n_) for n_ in r_first) and bool(r_later) and \
        not any(isinstance(n_.ast.value, ast.Constant) for n_ in r_later)
    obs.append(ob("STEPINIT", "first-iteration step cap is 1 (documented deviation of the port)", g, r_first[0].ast if r_first else g.node, ok1,
                  f"returns on the first iteration: {[short(n_.ast.value) for n_ in r_first]}; later: {[short(n_.ast.value, 30) for n_ in r_later]}",
                  construct="if n_iter == 0: return 1.0"))
    from ..flow import Expander
    gx = Expander(ctx, g)
    gcfg, grd = ctx.cfg(g), ctx.rd(g)
    vals: List[ast.expr] = []
    for r in [x for x in ast.walk(g.node) if isinstance(x, ast.Return) and x.value is not None]:
        if isinstance(r.value, ast.Constant):
            continue
        n = gcfg.node_of(r)
        cands = [r.value]
        if isinstance(r.value, ast.Name):
            cands = [v for _, v, how in grd.value_exprs(n, r.value.id) if v is not None] or [r.value]
        for v in cands:
            if isinstance(v, ast.IfExp):
                vals += [v.body, v.orelse]
            else:
                vals.append(v)
    ok2, seen = bool(vals), []
    for v in vals:
        e = gx.expand_at(v, v) if not isinstance(v, ast.Name) else v
        t = src(e).replace(" ", "")
        seen.append(short(e, 60))
        capn = g.params[4] if len(g.params) > 4 else "max_steplength"      # the user's cap, by position
        if t == capn:
            continue
        good = isinstance(e, ast.Call) and dotted(e.func) in ("min", "np.minimum") and len(e.args) == 2 and \
            any(src(a) == capn for a in e.args) and \
            any(isinstance(a, ast.Call) and dotted(a.func) in ("np.nanmin", "np.min", "min") and "np.where(" in src(gx.expand_at(v, a)) and
                "np.isfinite" in src(gx.expand_at(v, a)) for a in e.args)
        ok2 = ok2 and good
    obs.append(ob("STEPINIT", "maximum step is min(user cap, smallest finite bound ratio)", g, g.node, ok2,
                  f"returned values: {seen}", construct="return min(max_steplength, nanmin(finite ratios))"))
    return obs


@rule("PGFORM", min_instances=2)
def rule_pgform(ctx: Ctx) -> List[Ob]:
    """the stopping quantities are the documented ones: projgr(x, g, lb, ub) = max |P(x - g) - x| with P the
    projection onto [lb, ub] (so that 'projected gradient <= gtol' means what C04 says), and the relative
    reduction test is (f_old - f) / max(|f_old|, |f|, 1) < ftol"""
    obs: List[Ob] = []
    f = ctx.repo.func("base.projgr")
    rets = [r for r in walk_no_nested(f.node) if isinstance(r, ast.Return)]
    need(len(rets) == 1, "PGFORM: projgr has more than one return")
    from ..flow import Expander
    e = Expander(ctx, f).expand_at(rets[0], rets[0].value)
    ps = f.params
    ok, why = False, f"returns {short(e)}"
    # peel max / abs
    if isinstance(e, ast.Call) and dotted(e.func) in ("np.max", "np.amax", "max", "np.linalg.norm") and e.args:
        inf_norm = dotted(e.func) != "np.linalg.norm" or (len(e.args) > 1 and src(e.args[1]) in ("np.inf", "inf"))
        a = e.args[0]
        if dotted(e.func) == "np.linalg.norm" and inf_norm:
            inner = a
        elif isinstance(a, ast.Call) and dotted(a.func) in ("np.abs", "abs", "np.absolute") and a.args:
            inner = a.args[0]
        else:
            inner = None
        if inner is not None and isinstance(inner, ast.BinOp) and isinstance(inner.op, ast.Sub):
            for proj, pt in ((inner.left, inner.right), (inner.right, inner.left)):
                if isinstance(proj, ast.Call) and dotted(proj.func) == "np.clip" and len(proj.args) == 1 and kw(proj, "a_min") is not None and kw(proj, "a_max") is not None:
                    proj = ast.Call(func=proj.func, args=[proj.args[0], kw(proj, "a_min"), kw(proj, "a_max")], keywords=[])
                if isinstance(proj, ast.Call) and isinstance(proj.func, ast.Attribute) and proj.func.attr == "clip" and dotted(proj.func) != "np.clip" and len(proj.args) == 2:
                    proj = ast.Call(func=ast.Name(id="np.clip", ctx=ast.Load()), args=[proj.func.value] + list(proj.args), keywords=[])
                if src(pt) == ps[0] and isinstance(proj, ast.Call) and (dotted(proj.func) in ("np.clip", "clip2bounds") or src(proj.func) == "np.clip") and len(proj.args) == 3 \
                        and src(proj.args[1]) == ps[2] and src(proj.args[2]) == ps[3] and isinstance(proj.args[0], ast.BinOp) \
                        and isinstance(proj.args[0].op, ast.Sub) and src(proj.args[0].left) == ps[0] and src(proj.args[0].right) == ps[1]:
                    ok = inf_norm
    obs.append(ob("PGFORM", "projgr is the infinity norm of P(x - g) - x", f, rets[0], ok, why,
                  construct="projgr: max(abs(clip(x - grad, lb, ub) - x))"))
    g = ctx.repo.func("main.is_f0_min_change_reached")
    f0, fo, ft = ("f0", "f0_old", "ftol") if all(p_ in g.params for p_ in ("f0", "f0_old", "ftol")) else (g.params[0], g.params[1], g.params[2])
    tests = [s for s in g.node.body if isinstance(s, ast.If)]
    need(len(tests) >= 1, "PGFORM: relative-reduction test not found")
    from ..flow import Expander
    gx = Expander(ctx, g)
    t = gx.expand_at(tests[0].test, tests[0].test)
    if isinstance(t, ast.UnaryOp) and isinstance(t.op, ast.Not):
        t = t.operand      # `if not (r < ftol): return False` -- which branch stops is EXIT's business
    ok2, why2 = False, f"test `{short(t)}`"
    if isinstance(t, ast.Compare) and len(t.ops) == 1 and isinstance(t.ops[0], (ast.Gt, ast.GtE)) and src(t.left) == ft:
        # mirrored spelling `ftol > r`
        t = ast.Compare(left=t.comparators[0], ops=[ast.Lt() if isinstance(t.ops[0], ast.Gt) else ast.LtE()], comparators=[t.left])
    if isinstance(t, ast.Compare) and len(t.ops) == 1 and isinstance(t.ops[0], (ast.Lt, ast.LtE)) and src(t.comparators[0]) == ft:
        a, b = sp.Symbol("f_new", real=True), sp.Symbol("f_old", real=True)
        K = Kernel(bindings={f0: Sc(a), fo: Sc(b)}, conds={}, maps={})
        v = K.ev(t.left)
        args = sorted({sp.Abs(a), sp.Abs(b), sp.Integer(1)}, key=sp.default_sort_key)
        ref = Sc((b - a) / sp.Function("max")(*args))
        ok2, w = equal(v, ref)
        why2 = f"{short(t.left)} = {v.e}" + ("" if ok2 else f"; reference {ref.e}")
    obs.append(ob("PGFORM", "relative reduction is (f_old - f) / max(|f_old|, |f|, 1), compared with ftol", g, tests[0], bool(ok2), why2,
                  construct="is_f0_min_change_reached: (f0_old - f0) / max(|f0_old|, |f0|, 1) < ftol"))
    return obs


@rule("SUBFORM", min_instances=3)
def rule_subform(ctx: Ctx) -> List[Ob]:
    """subspace minimisation (direct primal method, Byrd-Lu-Nocedal section 5.1): reduced gradient
    r = g + theta (x_c - x) - W M c, step dHat = -(1/theta) (rHat + (1/theta) Z^T W v), returned point
    x_c + alpha* Z dHat"""
    f = ctx.repo.func("subspacemin.subspace_minimization")
    obs: List[Ob] = []
    theta = sp.Symbol("theta", positive=True)
    for use in (True, False):
        tag = "with memory" if use else "empty memory"
        K = Kernel(bindings={"mats.theta": Sc(theta), "grad": Vec({"g": 1}), "xc": Vec({"xc": 1}), "x": Vec({"x": 1}),
                             "c": Vec({"c": 1}), "mats.invMfactors": Sc(0)},
                   conds={"mats.use_factor": use}, maps={"bmv": "M"}, recv_maps={"mats.W": "W"})
        sl = []
        for s in f.node.body:
            tg = set(_top_targets(s))
            if tg & {"r", "invThet"}:
                sl.append(s)
            elif isinstance(s, ast.If) and src(s.test) == "mats.use_factor" and any("r" in _top_targets(x) for x in s.body):
                sl.append(s)
        need(len(sl) >= 2, "SUBFORM: reduced-gradient statements not found")
        K.run(sl)
        ref = Vec({"g": 1, "xc": theta, "x": -theta, **({"W(M(c))": -1} if use else {})})
        ok, why = equal(K.env["r"], ref)
        obs.append(ob("SUBFORM", f"reduced gradient r = g + theta (xc - x) - W M c ({tag})", f, sl[0], ok,
                      f"r = {K.env['r']}" + ("" if ok else f"; reference {ref}; {why}"), construct=f"r [{tag}]"))
    K = Kernel(bindings={"rHat": Vec({"rHat": 1}), "v": Vec({"v": 1}), "mats.theta": Sc(theta)}, conds={}, maps={},
               recv_maps={"np.transpose(WTZ)": "ZTW", "WTZ.T": "ZTW"})
    sl = [s for s in f.node.body if set(_top_targets(s)) & {"invThet", "dHat"}]
    need(len(sl) >= 2, "SUBFORM: dHat / invThet statements not found")
    K.run(sl)
    ref = Vec({"rHat": -1 / theta, "ZTW(v)": -1 / theta ** 2})
    ok, why = equal(K.env["dHat"], ref)
    obs.append(ob("SUBFORM", "subspace step dHat = -(1/theta)(rHat + (1/theta) Z^T W v)", f, sl[-1], ok,
                  f"dHat = {K.env['dHat']}" + ("" if ok else f"; reference {ref}; {why}"), construct="dHat"))
    # v enters through W^T Z rHat
    vdef = [s for s in f.node.body if _top_targets(s) == ["v"]]
    okv = bool(vdef) and canon_in(vdef[0].value, "WTZ @ rHat")
    wdef = [s for s in f.node.body if _top_targets(s) == ["WTZ"]]
    okw = bool(wdef) and canon_in(wdef[0].value, "(Z.T @ mats.W).T", "mats.W.T @ Z")
    obs.append(ob("SUBFORM", "the right-hand side of the reduced system is W^T Z rHat", f, vdef[0] if vdef else f.node, okv and okw,
                  f"v = {short(vdef[0].value) if vdef else '?'}; WTZ = {short(wdef[0].value) if wdef else '?'}", construct="v = (W^T Z) rHat"))
    return obs


@rule("KFACT", min_instances=2)
def rule_kfact(ctx: Ctx) -> List[Ob]:
    """the LEL^T factorisation of K used by the subspace step has one code path: L11 = chol(-K11),
    L12 = L11^{-1} (-K12), L22 = chol(K22 + L12^T L12), LK = [[L11, 0], [L12^T, L22]] (Byrd-Lu-Nocedal 5.x);
    every other return must be the trivial 1x1 case.  Compared as canonical block terms, not text."""
    f = ctx.repo.func("subspacemin.factorize_k")
    from ..flow import Expander
    ex = Expander(ctx, f)
    obs: List[Ob] = []
    rets = [r for r in walk_no_nested(f.node) if isinstance(r, ast.Return) and r.value is not None]
    need(len(rets) >= 1, "KFACT: no return")

    # single-assignment locals of the straight-line body (a name assigned twice, or K itself, is not resolved)
    defs: Dict[str, list] = {}
    for st in walk_no_nested(f.node):
        if isinstance(st, (ast.Assign, ast.AnnAssign, ast.AugAssign)):
            for tg in (st.targets if isinstance(st, ast.Assign) else [st.target]):
                for nm in ast.walk(tg):
                    base = tg
                    while isinstance(base, (ast.Subscript, ast.Attribute)):
                        base = base.value
                    if isinstance(nm, ast.Name) and (isinstance(nm.ctx, ast.Store) or nm is tg or nm is base):
                        defs.setdefault(nm.id, []).append(st.value if isinstance(st, (ast.Assign, ast.AnnAssign)) and isinstance(tg, ast.Name) else None)
    need("K" not in defs, "KFACT: K is reassigned inside factorize_k")

    def is_half(e) -> bool:
        if isinstance(e, ast.Name) and len(defs.get(e.id, [])) == 1 and defs[e.id][0] is not None:
            e = defs[e.id][0]
        t = src(e).replace(" ", "")
        return t in ("int(K.shape[0]/2)", "K.shape[0]//2", "int(K.shape[0]//2)", "K.shape[1]//2", "int(K.shape[1]/2)",
                     "len(K)//2", "int(len(K)/2)")

    def rng(sl):
        # 0 = first half, 1 = second half
        if isinstance(sl, ast.Slice) and sl.step is None:
            if sl.lower is None and sl.upper is not None and is_half(sl.upper):
                return 0
            if sl.upper is None and sl.lower is not None and is_half(sl.lower):
                return 1
        return None

    def T(x):
        return x[1] if x[0] == "T" else ("T", x)

    def neg(x):
        return x[1] if x[0] == "neg" else ("neg", x)

    def kf(e):
        if isinstance(e, ast.Name):
            if e.id == "K":
                return ("K",)
            ds = defs.get(e.id, [])
            if len(ds) > 1 and ds[0] is not None and all(d is None for d in ds[1:]) and isinstance(ds[0], ast.Call) and \
                    (dotted(ds[0].func) or "").split(".")[-1] in ("zeros", "zeros_like"):
                # a preallocated zero matrix filled block by block: LK[:m, :m] = L11 ...
                blocks = {}
                for st in f.node.body:
                    if isinstance(st, ast.Assign) and len(st.targets) == 1 and isinstance(st.targets[0], ast.Subscript) and src(st.targets[0].value) == e.id:
                        sl = st.targets[0].slice
                        if not (isinstance(sl, ast.Tuple) and len(sl.elts) == 2):
                            return ("?", src(st))
                        a, b = rng(sl.elts[0]), rng(sl.elts[1])
                        if a is None or b is None or (a, b) in blocks:
                            return ("?", src(st))
                        blocks[(a, b)] = kf(st.value)
                if len(blocks) == len(ds) - 1:
                    return ("block",) + tuple(blocks.get(k_, ("0",)) for k_ in ((0, 0), (0, 1), (1, 0), (1, 1)))
            return kf(ds[0]) if len(ds) == 1 and ds[0] is not None else ("?", e.id)
        if isinstance(e, ast.Subscript) and isinstance(e.slice, ast.Tuple) and len(e.slice.elts) == 2 and src(e.value) != "K":
            # K[rows][:, cols]: a row-range view of K, then a column range
            base_ = e.value
            if isinstance(base_, ast.Name) and len(defs.get(base_.id, [])) == 1 and defs[base_.id][0] is not None:
                base_ = defs[base_.id][0]
            full = e.slice.elts[0]
            if isinstance(base_, ast.Subscript) and src(base_.value) == "K" and isinstance(base_.slice, ast.Slice) and \
                    isinstance(full, ast.Slice) and full.lower is None and full.upper is None and full.step is None:
                a, b = rng(base_.slice), rng(e.slice.elts[1])
                if a is not None and b is not None:
                    return ("blk", a, b) if (a, b) != (1, 0) else ("T", ("blk", 0, 1))
        if isinstance(e, ast.Subscript) and isinstance(e.slice, ast.Tuple) and len(e.slice.elts) == 2 and src(e.value) == "K":
            a, b = rng(e.slice.elts[0]), rng(e.slice.elts[1])
            if a is not None and b is not None:
                # K is symmetric: K21 = K12^T
                return ("blk", a, b) if (a, b) != (1, 0) else ("T", ("blk", 0, 1))
        if isinstance(e, ast.UnaryOp) and isinstance(e.op, ast.USub):
            return neg(kf(e.operand))
        if isinstance(e, ast.Attribute) and e.attr == "T":
            return T(kf(e.value))
        if isinstance(e, ast.BinOp) and isinstance(e.op, ast.MatMult):
            return ("mm", kf(e.left), kf(e.right))
        if isinstance(e, ast.BinOp) and isinstance(e.op, ast.Add):
            return ("add",) + tuple(sorted([kf(e.left), kf(e.right)], key=repr))
        if isinstance(e, ast.Call):
            fn = (dotted(e.func) or "").split(".")[-1]
            if fn == "cholesky" and e.args:
                lo = kw(e, "lower") or (e.args[1] if len(e.args) > 1 else None)
                return ("chol" if lo is not None and src(lo) == "True" else "cholU", kf(e.args[0]))
            if fn == "solve_triangular" and len(e.args) >= 2:
                lo, tr = kw(e, "lower"), kw(e, "trans")
                plain = lo is not None and src(lo) == "True" and (tr is None or src(tr) in ("'N'", "0", '"N"'))
                return ("tsolve" if plain else "tsolve?" + src(e), kf(e.args[0]), kf(e.args[1]))
            if fn in ("zeros", "zeros_like"):
                return ("0",)
            if fn in ("hstack", "vstack") and len(e.args) == 1 and isinstance(e.args[0], (ast.List, ast.Tuple)):
                return (fn,) + tuple(kf(x) for x in e.args[0].elts)
            if fn == "block" and len(e.args) == 1 and isinstance(e.args[0], ast.List) and all(isinstance(r_, ast.List) for r_ in e.args[0].elts):
                rows = [[kf(x) for x in r_.elts] for r_ in e.args[0].elts]
                if len(rows) == 2 and all(len(r_) == 2 for r_ in rows):
                    return ("block", rows[0][0], rows[0][1], rows[1][0], rows[1][1])
            if fn in ("asarray", "array", "atleast_2d") and e.args:
                return kf(e.args[0])
        return ("?", src(e))

    def blockform(t):
        if t[0] == "hstack" and len(t) == 3 and all(c[0] == "vstack" and len(c) == 3 for c in t[1:]):
            return ("block", t[1][1], t[2][1], t[1][2], t[2][2])
        if t[0] == "vstack" and len(t) == 3 and all(c[0] == "hstack" and len(c) == 3 for c in t[1:]):
            return ("block", t[1][1], t[1][2], t[2][1], t[2][2])
        return t

    L11 = ("chol", ("neg", ("blk", 0, 0)))
    L12 = ("tsolve", L11, ("neg", ("blk", 0, 1)))
    L22 = ("chol", ("add",) + tuple(sorted([("blk", 1, 1), ("mm", ("T", L12), L12)], key=repr)))
    REF = ("block", L11, ("0",), ("T", L12), L22)
    for r in rets:
        e = r.value
        t = blockform(kf(e))
        if t[0] == "block" or len(rets) == 1 or r is rets[-1]:
            ok = t == REF
            why = ""
            if not ok and t[0] == "block":
                for nm, a, b in zip(("L11", "zero block", "L12^T", "L22"), t[1:], REF[1:]):
                    if a != b:
                        why = f": block {nm} is {a}, reference {b}"
                        break
            obs.append(ob("KFACT", "LK is assembled from chol(-K11), L11^-1(-K12) and chol(K22 + L12'L12)", f, r, ok,
                          f"returns {short(e, 100)}{why}", construct="factorize_k: assembled factor"))
        else:
            # the degenerate exit: only for a 1x1 K, where sqrt(K) is the factor
            guard = None
            for p_ in ast.walk(f.node):
                if isinstance(p_, ast.If) and any(r is x for b in p_.body for x in ast.walk(b)):
                    guard = p_
            val = src(e).replace(" ", "")
            trivial = val in ("np.sqrt(K)", "K**0.5", "np.sqrt(np.abs(K))")
            g = src(guard.test).replace(" ", "") if guard is not None else ""
            SMALL = ("K.size<4", "K.size==1", "K.size<2", "K.size<=1", "K.shape[0]<2", "K.shape[0]==1", "K.shape[0]<=1", "len(K)<2", "len(K)==1")
            from ..core import bool_equiv
            small = g in SMALL or (guard is not None and any(bool_equiv(guard.test, x) for x in
                                                           ("K.size < 4", "K.size < 2", "K.size <= 1", "K.shape[0] < 2", "len(K) < 2")))
            if trivial and guard is not None and not small:
                raise AnalysisError(f"KFACT: guard `{short(guard.test)}` of the trivial exit is not a recognised 'K is 1x1' test")
            okd = trivial and small
            obs.append(ob("KFACT", "any other return is the trivial 1x1 case", f, r, okd,
                          f"returns {short(e, 80)} under `{short(guard.test) if guard is not None else 'no guard'}`" +
                          ("" if okd else ": a second code path computes the factor by another formula"),
                          construct=f"factorize_k: return {short(r.value, 40)}"))
    return obs


# ------------------------------------------------------------------ K of the subspace step (C09)
class _Tri:
    """linear combinations of the strictly-lower / diagonal / strictly-upper parts of a few named matrices:
    {(name, part, transposed): coefficient}; enough to decide identities such as
    tril(S'Y, -1) - S'ZZ'Y == tril(S'AA'Y, -1) - triu(S'ZZ'Y)   given   S'Y = S'ZZ'Y + S'AA'Y"""
    PARTS = ("sl", "d", "su")

    def __init__(self, terms=None):
        self.t: Dict[tuple, sp.Expr] = {k: v for k, v in (terms or {}).items() if sp.simplify(v) != 0}

    @staticmethod
    def full(name: str, sym: bool = False) -> "_Tri":
        x = _Tri({(name, p, False): sp.Integer(1) for p in _Tri.PARTS})
        x.symm = sym
        return x

    def _norm_key(self, k):
        # key (name, part, tr) denotes `part` of (name^T if tr else name)
        name, part, tr = k
        if name in _Tri.SYMMETRIC:
            tr = False          # X^T = X
        if part == "d":
            tr = False          # the diagonal of X^T is the diagonal of X
        return (name, part, tr)

    SYMMETRIC = {"Y'ZZ'Y", "S'AA'S", "S'ZZ'S", "Y'AA'Y", "D"}

    def add(self, o: "_Tri", sign=1) -> "_Tri":
        t = dict(self.t)
        for k, v in o.t.items():
            t[k] = t.get(k, 0) + sign * v
        return _Tri(t)

    def scale(self, c) -> "_Tri":
        return _Tri({k: c * v for k, v in self.t.items()})

    def T(self) -> "_Tri":
        out = {}
        for (name, part, tr), v in self.t.items():
            k = self._norm_key((name, {"sl": "su", "su": "sl", "d": "d"}[part], not tr))
            out[k] = out.get(k, 0) + v
        return _Tri(out)

    def keep(self, parts) -> "_Tri":
        """the given parts of the matrix this combination denotes (every term already names the part it occupies)"""
        return _Tri({k: v for k, v in self.t.items() if k[1] in parts})

    def canon(self) -> Dict[tuple, sp.Expr]:
        out = {}
        for k, v in self.t.items():
            k2 = self._norm_key(k)
            out[k2] = sp.simplify(out.get(k2, 0) + v)
        return {k: v for k, v in out.items() if v != 0}

    def __repr__(self):
        return " + ".join(f"({v})*{p}({n}){'^T' if tr else ''}" for (n, p, tr), v in sorted(self.canon().items(), key=repr)) or "0"


def _factors(m) -> Optional[list]:
    """flatten a canonical product ('mm', ..) into [(symbol, transposed)]"""
    if m[0] == "mm":
        a, b = _factors(m[1]), _factors(m[2])
        return None if a is None or b is None else a + b
    if m[0] == "sym":
        return [(m[1], False)]
    if m[0] == "T":
        inner = _factors(m[1])
        return None if inner is None else [(s_, not t_) for s_, t_ in reversed(inner)]
    return None


@rule("KFORM", min_instances=4)
def rule_kform(ctx: Ctx) -> List[Ob]:
    """the matrix K of the reduced system (Byrd-Lu-Nocedal eq. 5.x) is assembled as
    [[-D - Y'ZZ'Y/theta, (L_A - R_Z)'], [L_A - R_Z, theta S'AA'S]] with L_A - R_Z = L - S'ZZ'Y
    (L, D the strictly lower and diagonal parts of S'Y = S'ZZ'Y + S'AA'Y): decided in an algebra of triangular parts,
    so that the documented spelling tril(S'AA'Y, -1) - triu(S'ZZ'Y) and the implemented one L - S'ZZ'Y are the same"""
    f = ctx.repo.func("subspacemin.form_k_from_za")
    obs: List[Ob] = []
    theta = sp.Symbol("theta", positive=True)
    P, Q = _Tri.full("S'ZZ'Y"), _Tri.full("S'AA'Y")
    base = {"mats.L": P.keep({"sl"}).add(Q.keep({"sl"})), "mats.D": _Tri({("D", "d", False): sp.Integer(1)}),
            "mats.theta": theta}
    NAMES = {("mats.S", "Z", "mats.Y"): ("S'ZZ'Y", False), ("mats.Y", "Z", "mats.S"): ("S'ZZ'Y", True),
             ("mats.S", "A", "mats.Y"): ("S'AA'Y", False), ("mats.Y", "A", "mats.S"): ("S'AA'Y", True),
             ("mats.Y", "Z", "mats.Y"): ("Y'ZZ'Y", False), ("mats.S", "A", "mats.S"): ("S'AA'S", False),
             ("mats.S", "Z", "mats.S"): ("S'ZZ'S", False), ("mats.Y", "A", "mats.Y"): ("Y'AA'Y", False)}
    env: Dict[str, object] = dict(base)

    def ev(e: ast.expr):
        k = src(e)
        if k in env:
            return env[k]
        if isinstance(e, ast.Constant) and isinstance(e.value, (int, float)):
            return sp.nsimplify(e.value)
        if isinstance(e, ast.UnaryOp) and isinstance(e.op, ast.USub):
            v = ev(e.operand)
            return v.scale(-1) if isinstance(v, _Tri) else -v
        if isinstance(e, ast.Attribute) and e.attr == "T":
            v = ev(e.value)
            return v.T() if isinstance(v, _Tri) else v
        if isinstance(e, ast.Call) and dotted(e.func) == "np.transpose" and len(e.args) == 1:
            v = ev(e.args[0])
            return v.T() if isinstance(v, _Tri) else v
        if isinstance(e, ast.Call) and dotted(e.func) in ("np.tril", "np.triu") and e.args:
            v = ev(e.args[0])
            kk = e.args[1] if len(e.args) > 1 else kw(e, "k")
            kv = int(src(kk)) if kk is not None else 0
            need(isinstance(v, _Tri) and kv in (-1, 0, 1), f"KFORM: `{short(e)}` not understood")
            lower = dotted(e.func) == "np.tril"
            parts = {"sl"} | ({"d"} if kv >= 0 else set()) | ({"su"} if kv >= 1 else set()) if lower else \
                {"su"} | ({"d"} if kv <= 0 else set()) | ({"sl"} if kv <= -1 else set())
            return v.keep(parts)
        if isinstance(e, ast.BinOp) and isinstance(e.op, (ast.Add, ast.Sub)):
            a, b = ev(e.left), ev(e.right)
            need(isinstance(a, _Tri) == isinstance(b, _Tri), f"KFORM: `{short(e)}` mixes a matrix and a scalar")
            if isinstance(a, _Tri):
                return a.add(b, 1 if isinstance(e.op, ast.Add) else -1)
            return a + b if isinstance(e.op, ast.Add) else a - b
        if isinstance(e, ast.BinOp) and isinstance(e.op, (ast.Mult, ast.Div)):
            a, b = ev(e.left), ev(e.right)
            if isinstance(a, _Tri) and not isinstance(b, _Tri):
                return a.scale(b if isinstance(e.op, ast.Mult) else 1 / b)
            if isinstance(b, _Tri) and not isinstance(a, _Tri) and isinstance(e.op, ast.Mult):
                return b.scale(a)
            need(not isinstance(a, _Tri) and not isinstance(b, _Tri), f"KFORM: product `{short(e)}` not understood")
            return a * b if isinstance(e.op, ast.Mult) else a / b
        if isinstance(e, ast.Call) and dotted(e.func) in ("np.asarray", "np.array", "np.ascontiguousarray") and len(e.args) == 1:
            return ev(e.args[0])
        if isinstance(e, ast.IfExp) and is_empty_test(e.test) is not None:
            # conditional expression form of the empty-projection guard
            return ev(e.orelse if is_empty_test(e.test) else e.body)
        if isinstance(e, ast.IfExp) and isinstance(e.test, ast.Compare) and len(e.test.ops) == 1 and isinstance(e.test.ops[0], (ast.Is, ast.IsNot)):
            same = src(e.test.left) == src(e.test.comparators[0])      # `V is U`: the same attribute of the same object, or two different ones
            return ev(e.body if same == isinstance(e.test.ops[0], ast.Is) else e.orelse)
        # a product chain U' P P' V (temporaries holding partial products are substituted back)
        import copy as _cp

        class _Back(ast.NodeTransformer):
            def visit_Name(self, n_):
                if n_.id in raw:
                    return self.visit(_cp.deepcopy(raw[n_.id]))
                return n_

            def visit_Call(self, c_):
                self.generic_visit(c_)
                if dotted(c_.func) in ("np.asarray", "np.array", "np.ascontiguousarray") and len(c_.args) == 1:
                    return c_.args[0]
                return c_

            def visit_IfExp(self, x_):
                self.generic_visit(x_)
                if isinstance(x_.test, ast.Compare) and len(x_.test.ops) == 1 and isinstance(x_.test.ops[0], (ast.Is, ast.IsNot)):
                    same = src(x_.test.left) == src(x_.test.comparators[0])
                    return x_.body if same == isinstance(x_.test.ops[0], ast.Is) else x_.orelse
                return x_
        e = _Back().visit(_cp.deepcopy(e))
        fs = _factors(_mx(e, {}))
        if fs is not None and len(fs) == 4:
            (u, ut), (p1, t1), (p2, t2), (v, vt) = fs
            if ut and not t1 and t2 and not vt and p1 == p2 and (u, p1, v) in NAMES:
                nm, tr = NAMES[(u, p1, v)]
                x = _Tri.full(nm)
                return x.T() if tr else x
        raise AnalysisError(f"KFORM: expression `{short(e, 60)}` not understood")

    # straight-line interpretation; the empty-projection branches (Z or A without rows) are skipped: they only replace a
    # product that is zero anyway by an explicit zero matrix
    blocks: Dict[tuple, object] = {}
    half = None
    raw: Dict[str, ast.expr] = {}      # temporaries that are not a matrix of the algebra by themselves (partial products)

    def is_empty_test(t) -> Optional[bool]:
        """True if the test holds exactly when the projection is EMPTY"""
        if isinstance(t, ast.Compare) and len(t.ops) == 1 and isinstance(t.comparators[0], ast.Constant) and t.comparators[0].value == 0 \
                and src(t.left) in ("Z.shape[0]", "A.shape[0]", "Z.shape[1]", "A.shape[1]", "Z.size", "A.size"):
            return True if isinstance(t.ops[0], ast.Eq) else False if isinstance(t.ops[0], (ast.NotEq, ast.Gt)) else None
        return None

    def rngk(sl) -> Optional[int]:
        if isinstance(sl, ast.Slice) and sl.step is None:
            if sl.lower is None and sl.upper is not None and src(sl.upper) == half:
                return 0
            if sl.upper is None and sl.lower is not None and src(sl.lower) == half:
                return 1
        if isinstance(sl, ast.Name) and src(sl) in slices:
            return slices[src(sl)]
        return None
    slices: Dict[str, int] = {}

    def run(stmts):
        nonlocal half
        for s_ in stmts:
            if isinstance(s_, ast.Expr):
                continue
            if isinstance(s_, ast.If):
                et = is_empty_test(s_.test)
                need(et is not None, f"KFORM: branch on `{short(s_.test)}` not understood")
                run(s_.orelse if et else s_.body)
                continue
            if isinstance(s_, ast.Return):
                continue
            if isinstance(s_, (ast.Assign, ast.AnnAssign)) and getattr(s_, "value", None) is not None:
                t = s_.targets[0] if isinstance(s_, ast.Assign) else s_.target
                v = s_.value
                if isinstance(t, ast.Name):
                    if isinstance(v, ast.Call) and dotted(v.func) in ("np.zeros", "np.empty"):
                        continue                       # allocation of K
                    if src(v).replace(" ", "") in ("mats.L.shape[0]", "mats.D.shape[0]", "mats.S.shape[1]", "mats.Y.shape[1]", "len(mats.L)"):
                        half = t.id
                        continue
                    if isinstance(v, ast.Call) and dotted(v.func) == "slice" and half is not None:
                        a_ = [src(x) for x in v.args]
                        if a_ in (["None", half], [half]):
                            slices[t.id] = 0
                            continue
                        if a_ == [half, "None"]:
                            slices[t.id] = 1
                            continue
                    try:
                        env[t.id] = ev(v)
                    except AnalysisError:
                        raw[t.id] = v
                    continue
                if isinstance(t, ast.Subscript) and isinstance(t.slice, ast.Tuple) and len(t.slice.elts) == 2:
                    a_, b_ = rngk(t.slice.elts[0]), rngk(t.slice.elts[1])
                    need(a_ is not None and b_ is not None, f"KFORM: block store `{short(t)}` not understood")
                    blocks[(a_, b_)] = (ev(v), s_)
                    continue
            raise AnalysisError(f"KFORM: statement `{short(s_, 60)}` not understood")
    body = [s_ for s_ in f.node.body if not (isinstance(s_, ast.Expr) and isinstance(s_.value, ast.Constant))]
    run(body)
    # K returned as an assembled expression instead of block stores
    need(len(blocks) == 4, f"KFORM: {len(blocks)} of the 4 blocks of K found")
    K21 = Q.keep({"sl"}).add(P.keep({"d", "su"}), -1)            # L_A - R_Z
    ref = {(0, 0): _Tri({("D", "d", False): sp.Integer(-1)}).add(_Tri.full("Y'ZZ'Y").scale(-1 / theta)),
           (1, 0): K21, (0, 1): K21.T(), (1, 1): _Tri.full("S'AA'S").scale(theta)}
    names = {(0, 0): "-D - Y'ZZ'Y / theta", (1, 0): "L_A - R_Z", (0, 1): "(L_A - R_Z)'", (1, 1): "theta S'AA'S"}
    for k_, r_ in ref.items():
        got, at = blocks[k_]
        ok = isinstance(got, _Tri) and got.canon() == r_.canon()
        obs.append(ob("KFORM", f"block {k_} of K is {names[k_]}", f, at, ok,
                      f"K{k_} = {got}" + ("" if ok else f"; reference {r_}"), construct=f"K block {k_}"))
    return obs


@rule("KSOLVE", min_instances=2)
def rule_ksolve(ctx: Ctx) -> List[Ob]:
    """the reduced system K v = W'Z rHat is solved through the factor LK of K = LK E LK' (E = diag(-I, I)):
    v <- LK^-1 v (lower triangular); v[:m] <- -v[:m] (E^-1 = E); v <- LK^-T v (upper triangular), in this order, with
    m half the size of K; and the right-hand side and the factor are those of this call"""
    f = ctx.repo.func("subspacemin.subspace_minimization")
    obs: List[Ob] = []
    # the statement list that applies the factor
    def _bodies(node):
        for x in walk_no_nested(node):
            for fld in ("body", "orelse", "finalbody"):
                b = getattr(x, fld, None)
                if isinstance(b, list) and b and isinstance(b[0], ast.stmt):
                    yield b
    body = None
    for b in _bodies(f.node):
        if any(isinstance(s, ast.Assign) and isinstance(s.value, ast.Call) and (dotted(s.value.func) or "").endswith("solve_triangular")
               and s.value.args and src(s.value.args[0]).split(".")[0] == "LK" for s in b):
            need(body is None, "KSOLVE: the factor LK is applied in more than one statement list")
            body = b
    need(body is not None, "KSOLVE: no triangular solve with the factor LK was found")
    br = body[0]
    # only the statements from the first to the last operation on the right-hand side matter
    idx = [i for i, s in enumerate(body) if (isinstance(s, ast.Assign) and isinstance(s.value, ast.Call) and (dotted(s.value.func) or "").endswith("solve_triangular"))]
    body = [s for s in body[idx[0]:idx[-1] + 1]
            if not (isinstance(s, (ast.Assign, ast.AnnAssign)) and src(s.targets[0] if isinstance(s, ast.Assign) else s.target) in ("K", "LK"))]
    seq = []
    alias: Dict[str, str] = {}
    for s in body:
        if isinstance(s, ast.Expr):
            continue
        if isinstance(s, ast.Assign) and len(s.targets) == 1 and isinstance(s.targets[0], ast.Name) and isinstance(s.value, ast.Name):
            # a renamed right-hand side (an inlined helper's parameter)
            alias[s.targets[0].id] = alias.get(s.value.id, s.value.id)
            continue
        if isinstance(s, ast.Assign) and len(s.targets) == 1 and isinstance(s.value, ast.Call) and (dotted(s.value.func) or "").endswith("solve_triangular"):
            c = s.value
            a0, a1 = (src(c.args[0]) if c.args else "?"), (src(c.args[1]) if len(c.args) > 1 else "?")
            lo, tr = kw(c, "lower"), kw(c, "trans")
            lower = lo is not None and src(lo) == "True"
            trans = tr is not None and src(tr) not in ("'N'", "0", '"N"')
            if a0 == "LK" and lower and not trans:
                seq.append(("Linv", src(s.targets[0]), a1, s))
            elif (a0 == "LK.T" and not lower and not trans) or (a0 == "LK" and lower and trans):
                seq.append(("LTinv", src(s.targets[0]), a1, s))
            else:
                seq.append(("?" + short(c, 50), src(s.targets[0]), a1, s))
        elif isinstance(s, ast.AugAssign) and isinstance(s.op, ast.Mult) and src(s.value) in ("-1", "-1.0") and isinstance(s.target, ast.Subscript):
            sl = s.target.slice
            half = isinstance(sl, ast.Slice) and sl.lower is None and sl.step is None and sl.upper is not None and \
                src(sl.upper).replace(" ", "") in ("int(LK.shape[0]/2)", "LK.shape[0]//2", "int(LK.shape[0]//2)", "m", "len(LK)//2")
            seq.append(("E" if half else "E?" + src(sl), src(s.target.value), src(s.target.value), s))
        elif isinstance(s, ast.Assign) and isinstance(s.targets[0], ast.Subscript) and isinstance(s.value, ast.UnaryOp) and isinstance(s.value.op, ast.USub):
            sl = s.targets[0].slice
            half = isinstance(sl, ast.Slice) and sl.lower is None and sl.step is None and sl.upper is not None and \
                src(sl.upper).replace(" ", "") in ("int(LK.shape[0]/2)", "LK.shape[0]//2", "int(LK.shape[0]//2)", "m", "len(LK)//2") and \
                src(s.value.operand) == src(s.targets[0])
            seq.append(("E" if half else "E?" + src(sl), src(s.targets[0].value), src(s.targets[0].value), s))
        else:
            seq.append(("other:" + short(s, 40), None, None, s))
    kinds = [k for k, _, _, _ in seq]
    chain = True
    cur = None
    for k, out, inp, _ in seq:
        if inp is None:
            chain = False
            break
        rin = alias.get(inp, inp)
        if cur is not None and rin != cur:
            chain = False
        if k.startswith("E"):
            cur = rin
        else:
            alias.pop(out, None)
            cur = out
    ok = kinds == ["Linv", "E", "LTinv"] and chain
    obs.append(ob("KSOLVE", "v = LK^-T E LK^-1 v with E = diag(-I_m, I_m)", f, seq[0][3] if seq else br, ok,
                  f"operations on the right-hand side: {kinds}" + ("" if ok else ": expected forward solve, sign flip of the first half, backward solve"),
                  construct="solve through LK"))
    # the right-hand side is W'Z rHat and the factor comes from form_k / factorize_k of this call
    vdef = [s for s in f.node.body if _top_targets(s) == ["v"]]
    lkdefs = [s for s in walk_no_nested(f.node) if isinstance(s, (ast.Assign, ast.AnnAssign)) and getattr(s, "value", None) is not None
              and src(s.targets[0] if isinstance(s, ast.Assign) else s.target) == "LK" and isinstance(s.value, ast.Call)]
    ex = Expander_for(ctx, f)
    wtz = src(ex.expand_at(vdef[0], ast.Name("WTZ", ast.Load()))) if vdef else "?"

    def _from_form_k(s):
        if (dotted(s.value.func) or "").split(".")[-1] != "factorize_k" or not s.value.args:
            return False
        k = ex.expand_at(s, s.value.args[0])
        if not (isinstance(k, ast.Call) and (dotted(k.func) or "").split(".")[-1] == "form_k"):
            return False
        a = bind_args(k, ctx.repo.func("subspacemin.form_k").node)
        return [src(a[n]) if n in a else None for n in ("Z", "A", "WTZ", "mats")] == ["Z", "A", wtz, "mats"]

    okf = bool(lkdefs) and all(_from_form_k(s) for s in lkdefs)
    obs.append(ob("KSOLVE", "the factor is factorize_k(form_k(Z, A, WTZ, mats)) of this call", f, lkdefs[0] if lkdefs else f.node, okf,
                  f"LK <- {[short(s.value, 60) for s in lkdefs]}", construct="LK = factorize_k(form_k(..))"))
    return obs


def Expander_for(ctx, f):
    from ..flow import Expander
    return Expander(ctx, f)


@rule("INVMFORM", min_instances=1)
def rule_invmform(ctx: Ctx) -> List[Ob]:
    """the factors of the middle matrix are an exact algebraic function of D, L, S'S and theta: form_invMfactors may only
    combine them with arithmetic, square roots, transposes, products, a Cholesky factorisation and block assembly -- no
    floor, clamp, absolute value, selection or machine-epsilon term, which would make the factors those of another matrix
    than the one of the stored pairs whenever a curvature is small"""
    f = ctx.repo.func("bfgsmats.form_invMfactors")
    obs: List[Ob] = []
    ALLOWED = {"np.diag", "np.sqrt", "np.zeros", "np.zeros_like", "np.empty", "np.empty_like", "np.eye", "np.identity", "np.hstack", "np.vstack",
               "np.block", "np.concatenate", "np.transpose", "np.diagflat", "np.reciprocal", "np.atleast_2d", "np.asarray", "np.array", "np.dot",
               "np.matmul", "np.negative", "np.fill_diagonal", "np.diag_indices", "np.diag_indices_from", "np.arange", "np.tril", "np.triu",
               "np.linalg.cholesky", "sp.linalg.cholesky", "scipy.linalg.cholesky", "sp.linalg.solve_triangular", "scipy.linalg.solve_triangular",
               "np.copy", "range", "len", "int", "np.multiply", "np.divide", "np.power"}
    METHODS = {"dot", "copy", "transpose", "reshape", "astype", "diagonal"}
    bad = []
    ncalls = 0
    for c in walk_no_nested(f.node):
        if isinstance(c, ast.Call):
            ncalls += 1
            d = dotted(c.func) or ""
            if d in ALLOWED:
                continue
            if isinstance(c.func, ast.Attribute) and c.func.attr in METHODS and not d.startswith(("np.", "sp.", "scipy.", "numpy.")):
                continue
            bad.append(c)
    # constants other than small integers / halves have no place in the formula either (1e-16 + d, ...)
    for k in walk_no_nested(f.node):
        if isinstance(k, ast.Constant) and isinstance(k.value, float) and k.value not in (0.0, 0.5, 1.0, 2.0, -1.0):
            bad.append(k)
    need(ncalls >= 2, "INVMFORM: form_invMfactors has no recognisable body")
    for b in bad:
        obs.append(ob("INVMFORM", "form_invMfactors combines D, L, S'S, theta by exact algebra only", f, b, False,
                      f"`{short(b, 70)}` is not part of the factorisation formula: the factors are no longer those of the matrix built from the stored pairs",
                      construct=short(b, 60)))
    if not bad:
        obs.append(ob("INVMFORM", "form_invMfactors combines D, L, S'S, theta by exact algebra only", f, f.node, True,
                      f"{ncalls} calls, all arithmetic / sqrt / cholesky / assembly", construct="form_invMfactors: operations used"))
    return obs


@rule("BPWALK", min_instances=4)
def rule_bpwalk(ctx: Ctx) -> List[Ob]:
    """control of the breakpoint walk of the Cauchy search: (a) breakpoints are computed for the variables with a non-zero
    gradient only and the others never reached (t = inf); (b) variables already at their bound (t = 0) are taken out of
    the walk; (c) the walk stops -- before touching the segment's quantities -- as soon as the minimiser of the current
    segment lies inside it (delta_t_min < delta_t); (d) each cycle examines the next breakpoint of the sorted order"""
    f = ctx.repo.func("cauchy.get_cauchy_point")
    cfg = ctx.cfg(f)
    obs: List[Ob] = []
    loops = [s for s in f.node.body if isinstance(s, (ast.While, ast.For))]
    need(len(loops) == 1, "BPWALK: breakpoint loop not found")
    lp = loops[0]
    pre = f.node.body[: f.node.body.index(lp)]
    from ..flow import Expander, selection_like
    ex = Expander(ctx, f, only=selection_like)
    # (a) mask and infinity
    gname = "grad" if "grad" in f.params else f.params[1]
    tnames = {"t"}
    grew = True
    while grew:
        grew = False
        for s in pre:
            if isinstance(s, (ast.Assign, ast.AnnAssign)) and getattr(s, "value", None) is not None and isinstance(s.value, ast.Name) \
                    and src(s.targets[0] if isinstance(s, ast.Assign) else s.target) in tnames and s.value.id not in tnames:
                tnames.add(s.value.id)      # t = breakpoints_1 (an inlined helper's local)
                grew = True
    tdefs = [s for s in pre if isinstance(s, ast.Assign) and isinstance(s.targets[0], ast.Subscript) and src(s.targets[0].value) in tnames]
    masked = [s for s in tdefs if isinstance(s.value, ast.Call) and dotted(s.value.func) == "np.where"]
    oka = False
    why = "no masked assignment of the breakpoints"
    if masked:
        m = ex.expand_at(masked[0], masked[0].targets[0].slice)
        oka = canon_in(m, f"{gname} != 0")
        why = f"t[{short(m)}] = np.where(..)"
    infs = [s for s in tdefs if src(s.value) in ("np.inf", "float('inf')", "math.inf")]
    okinf = bool(infs) and all(canon_in(ex.expand_at(s, s.targets[0].slice), f"{gname} == 0") or
                               (masked and src(s.targets[0].slice).replace(" ", "") == "~" + src(masked[0].targets[0].slice).replace(" ", "")) for s in infs)
    obs.append(ob("BPWALK", "breakpoints exist for the variables with a non-zero gradient, the others are never reached", f, masked[0] if masked else f.node,
                  oka and okinf, why + f"; infinite breakpoints: {[short(s, 40) for s in infs]}", construct="t[grad != 0] = ..; t[grad == 0] = inf"))
    # (b) t == 0 filtered out of the sorted order
    flt = [s for s in pre if isinstance(s, (ast.Assign, ast.AnnAssign)) and getattr(s, "value", None) is not None and
           src(s.targets[0] if isinstance(s, ast.Assign) else s.target) == "sorted_t_idx" and isinstance(s.value, ast.Subscript)]
    okb = False
    whyb = "the sorted breakpoints are not filtered"
    for s in flt:
        sel = s.value.slice
        if isinstance(sel, ast.Compare) and len(sel.ops) == 1:
            l_, r_, op_ = sel.left, sel.comparators[0], type(sel.ops[0])
            O = src(s.value.value)
            strict = (op_ is ast.Gt and isinstance(r_, ast.Constant) and r_.value == 0 and src(l_).replace(" ", "") == f"t[{O}]") or \
                     (op_ is ast.Lt and isinstance(l_, ast.Constant) and l_.value == 0 and src(r_).replace(" ", "") == f"t[{O}]") or \
                     (op_ is ast.NotEq and isinstance(r_, ast.Constant) and r_.value == 0 and src(l_).replace(" ", "") == f"t[{O}]")
            # the filtered order is the sorted one: the name itself, or a temporary bound to the argsort of t
            is_order = O == "sorted_t_idx" or any(
                isinstance(q, (ast.Assign, ast.AnnAssign)) and getattr(q, "value", None) is not None and src(q.targets[0] if isinstance(q, ast.Assign) else q.target) == O
                and src(q.value).replace(" ", "") in ("np.argsort(t)", "t.argsort()") for q in pre)
            okb = okb or (strict and is_order)
            whyb = f"{short(s, 70)}"
    obs.append(ob("BPWALK", "variables already on their bound (t = 0) are taken out of the walk", f, flt[0] if flt else lp, okb, whyb,
                  construct="sorted_t_idx = sorted_t_idx[t[sorted_t_idx] > 0]"))
    # (b') nothing else is taken out of the sorted order: a variable with t = inf is free along the whole path, and the
    # routine's early exit (no breakpoint left -> the Cauchy point is x) is only right when no variable moves at all
    allowed_ids = {id(s) for s in flt}
    others = []
    for s in ast.walk(f.node):
        if isinstance(s, (ast.Assign, ast.AnnAssign, ast.AugAssign)) and getattr(s, "value", None) is not None and \
                getattr(s, "lineno", 0) < lp.lineno:
            tg = s.targets[0] if isinstance(s, ast.Assign) else s.target
            if src(tg) != "sorted_t_idx":
                continue
            v = s.value
            if src(v).replace(" ", "") in ("np.argsort(t)", "t.argsort()") or (isinstance(v, ast.Call) and (dotted(v.func) or "").endswith("argsort")):
                continue
            if id(s) in allowed_ids and okb and len(flt) == 1:
                continue
            if id(s) in allowed_ids and isinstance(v.slice, ast.Compare) and len(v.slice.ops) == 1 and \
                    isinstance(v.slice.comparators[0], ast.Constant) and v.slice.comparators[0].value == 0:
                continue
            others.append(s)
    obs.append(ob("BPWALK", "only the breakpoints t = 0 are taken out of the sorted order", f, others[0] if others else (flt[0] if flt else lp),
                  not others, ("; ".join(f"line {s.lineno}: `{short(s, 70)}`" for s in others[:3]) +
                               ": breakpoints other than t = 0 are dropped -- a variable with t = inf moves along the whole path; "
                               "with no breakpoint left the routine returns x itself as the Cauchy point, so a variable sitting on a "
                               "bound with the gradient pointing inwards is never released") if others else
                  "the sorted order is redefined only by the t > 0 filter", construct="other filters of sorted_t_idx"))
    # (c) the stop test comes first and leaves the loop
    heads_ = [n for n in cfg.nodes if (n.kind == "loophead" and n.owner is lp) or (n.kind == "for" and n.ast is lp)]
    need(len(heads_) == 1, "BPWALK: head of the breakpoint loop not found")
    head = heads_[0]
    stops = []
    for n in cfg.nodes:
        if n.kind == "test" and cfg.in_loop(n, lp) and isinstance(n.ast, ast.Compare) and len(n.ast.ops) == 1:
            l_, r_, op_ = src(n.ast.left), src(n.ast.comparators[0]), type(n.ast.ops[0])
            if (l_, r_) == ("delta_t_min", "delta_t") and op_ in (ast.Lt, ast.LtE, ast.GtE, ast.Gt):
                stops.append((n, op_ in (ast.Lt, ast.LtE), op_ in (ast.Lt, ast.GtE)))
            elif (l_, r_) == ("delta_t", "delta_t_min") and op_ in (ast.Lt, ast.LtE, ast.GtE, ast.Gt):
                stops.append((n, op_ in (ast.Gt, ast.GtE), op_ in (ast.Gt, ast.LtE)))
    okc, whyc = False, "no test of delta_t_min against delta_t in the loop"
    if len(stops) == 1:
        n, lab_stop, strict = stops[0]
        from ..flow import node_defs
        # on the stop outcome the loop is left without passing the head again and without any update of the segment quantities
        # a flag set on the stop outcome and tested by the loop condition (`while not found and ..`) decides that test
        stop_side = cfg.reachable(n, follow_exc=False, edge_ok=lambda a, b, lab: not (a is n and lab is (not lab_stop)), avoid=lambda m: m is head)
        flags = {m.ast.targets[0].id for m in stop_side if m.kind == "stmt" and isinstance(m.ast, ast.Assign) and len(m.ast.targets) == 1
                 and isinstance(m.ast.targets[0], ast.Name) and isinstance(m.ast.value, ast.Constant) and m.ast.value.value is True}

        def flag_edge_ok(a, b, lab):
            if a is n and lab is (not lab_stop):
                return False
            if a.kind == "test" and a.owner is lp:
                t_ = a.ast
                if isinstance(t_, ast.Name) and t_.id in flags and lab is False:
                    return False
                if isinstance(t_, ast.UnaryOp) and isinstance(t_.op, ast.Not) and isinstance(t_.operand, ast.Name) and t_.operand.id in flags and lab is True:
                    return False
            return True
        after = cfg.reachable(n, follow_exc=False, edge_ok=flag_edge_ok, avoid=lambda m: not cfg.in_loop(m, lp))
        body_first = [b for b, lab in cfg.succ[head]] if isinstance(lp, ast.For) else []
        again = any(m is not n and m is not head and not (m.kind == "test" and m.owner is lp) and m.kind != "loophead"
                    and m in cfg.reachable(head, follow_exc=False, edge_ok=flag_edge_ok, avoid=lambda q: not cfg.in_loop(q, lp))
                    for m in cfg.nodes if cfg.in_loop(m, lp) and m.kind in ("stmt", "test") and not (m.kind == "test" and m.owner is lp)) \
            if head in after else False
        touched = sorted({k for m in after if cfg.in_loop(m, lp) and m is not n for k, _, _ in node_defs(m) if k.split("[")[0] in
                          ("c", "p", "f_prime", "f_second", "x_cp", "t_old", "delta_t_min")})
        # ... and nothing of the segment is updated before the test within a cycle
        before = [m for m in cfg.nodes if cfg.in_loop(m, lp) and m is not n and n in cfg.reachable(m, follow_exc=False, avoid=lambda q: q is head)
                  and m in cfg.reachable(head, follow_exc=False, avoid=lambda q: q is n)]
        early = sorted({k for m in before for k, _, _ in node_defs(m) if k.split("[")[0] in ("c", "p", "f_prime", "f_second", "x_cp")})
        okc = strict and not again and not touched and not early
        whyc = f"`{short(n.ast)}`: strict={strict}; the stop outcome can reach the next cycle: {again}; quantities written on the way out: {touched}; before the test: {early}"
    elif len(stops) > 1:
        whyc = f"{len(stops)} tests of delta_t_min against delta_t"
    obs.append(ob("BPWALK", "the walk stops, before updating anything, once the segment contains its minimiser", f, stops[0][0].ast if stops else lp, okc, whyc,
                  construct="if delta_t_min < delta_t: break"))
    # (d) each cycle looks at the next breakpoint
    if isinstance(lp, ast.For):
        okd = src(lp.iter).replace(" ", "") in ("sorted_t_idx", "iter(sorted_t_idx)") and isinstance(lp.target, ast.Name) and lp.target.id == "ibp"
        whyd = f"for {short(lp.target)} in {short(lp.iter)}"
        if not okd and isinstance(lp.iter, ast.Call) and dotted(lp.iter.func) == "enumerate" and lp.iter.args and src(lp.iter.args[0]) == "sorted_t_idx" \
                and isinstance(lp.target, ast.Tuple) and len(lp.target.elts) == 2 and src(lp.target.elts[1]) == "ibp":
            okd = True
    else:
        from ..flow import node_defs
        incs = [m for m in cfg.nodes if cfg.in_loop(m, lp) and isinstance(m.ast, ast.AugAssign) and src(m.ast.target) == "_i" and isinstance(m.ast.op, ast.Add)
                and src(m.ast.value) == "1"]
        reads = [m for m in cfg.nodes if cfg.in_loop(m, lp) for k, v, how in node_defs(m) if v is not None and src(v).replace(" ", "") == "sorted_t_idx[_i]"]
        done_ = [m for m in cfg.nodes if cfg.in_loop(m, lp) for k, v, how in node_defs(m)
                 if v is not None and src(v) in ("np.inf", "math.inf", "float('inf')")]          # the order is exhausted: t_cur = inf
        okd = len(incs) == 1 and len(reads) >= 1
        if okd:
            # from the increment, the head is not reached again without reading the next index, unless the order is exhausted
            okd = not cfg.exists_path_avoiding(incs[0], head, lambda m: m in reads or m in done_)
        whyd = f"{len(incs)} increment(s) of _i, {len(reads)} read(s) `ibp = sorted_t_idx[_i]` after it"
    obs.append(ob("BPWALK", "each cycle examines the next breakpoint of the sorted order", f, lp, bool(okd), whyd, construct="_i += 1; ibp = sorted_t_idx[_i]"))
    return obs


def _invm_symbolic(f: Func):
    """(lower, upper) blocks of form_invMfactors as noncommutative sympy expressions, and the relation J J' = T"""
    R, L, Lt, S, J, Jt = sp.symbols("R L Lt S J Jt", commutative=False)
    th = sp.Symbol("theta", positive=True)
    TMAP = {L: Lt, Lt: L, J: Jt, Jt: J}
    par = {"theta": "theta", "STS": "STS", "L": "L", "D": "D"}
    need(all(p_ in f.params for p_ in par), "INVMFORM: parameters theta, STS, L, D of form_invMfactors not found")
    env: Dict[str, object] = {"D": R * R, "L": L, "STS": S, "theta": th}
    rel = {}
    sizes: Set[str] = set()

    def tr(x):
        x = sp.sympify(x)
        if x.is_Add:
            return sp.Add(*[tr(a) for a in x.args])
        if x.is_Mul:
            c_, nc_ = x.args_cnc()
            return sp.Mul(*c_) * sp.Mul(*[tr(a) for a in reversed(nc_)])
        if x.is_Pow:
            return sp.Pow(tr(x.base), x.exp)
        return TMAP.get(x, x)

    def mx(e):
        if isinstance(e, ast.Name):
            need(e.id in env, f"INVMFORM: unknown name {e.id}")
            return env[e.id]
        if isinstance(e, ast.Attribute) and e.attr == "T":
            return tr(mx(e.value))
        if isinstance(e, ast.UnaryOp) and isinstance(e.op, ast.USub):
            return -mx(e.operand)
        if isinstance(e, ast.BinOp) and isinstance(e.op, ast.MatMult):
            return mx(e.left) * mx(e.right)
        if isinstance(e, ast.BinOp) and isinstance(e.op, ast.Mult):
            return mx(e.left) * mx(e.right)
        if isinstance(e, ast.BinOp) and isinstance(e.op, ast.Add):
            return mx(e.left) + mx(e.right)
        if isinstance(e, ast.BinOp) and isinstance(e.op, ast.Sub):
            return mx(e.left) - mx(e.right)
        if isinstance(e, ast.Constant) and isinstance(e.value, (int, float)):
            return sp.nsimplify(e.value)
        if isinstance(e, ast.Call):
            d = dotted(e.func) or ""
            if d == "np.sqrt" and len(e.args) == 1:
                v = sp.sympify(mx(e.args[0]))
                if v == R * R or v == R ** 2:
                    return R
                if v == R ** -2:
                    return R ** -1
                raise AnalysisError(f"INVMFORM: square root of `{short(e.args[0])}`")
            if d in ("np.zeros", "np.zeros_like") and e.args:
                return sp.Integer(0)
            if d == "np.diag" and len(e.args) == 1 and isinstance(e.args[0], ast.BinOp) and isinstance(e.args[0].op, ast.Div) \
                    and src(e.args[0].left) in ("1", "1.0") and src(e.args[0].right).replace(" ", "") == "np.diag(D)":
                return R ** -2
            if d in ("np.linalg.inv", "sp.linalg.inv") and len(e.args) == 1 and src(e.args[0]) == "D":
                return R ** -2
            if d.endswith("cholesky") and e.args:
                lo = kw(e, "lower") or (e.args[1] if len(e.args) > 1 else None)
                need(lo is not None and src(lo) == "True", "INVMFORM: cholesky without lower=True")
                rel[J * Jt] = sp.expand(mx(e.args[0]))
                return J
            if d in ("np.hstack", "np.vstack") and len(e.args) == 1 and isinstance(e.args[0], (ast.List, ast.Tuple)):
                return (d.split(".")[-1],) + tuple(mx(x) for x in e.args[0].elts)
            if isinstance(e.func, ast.Attribute) and e.func.attr == "dot" and len(e.args) == 1:
                return mx(e.func.value) * mx(e.args[0])
        raise AnalysisError(f"INVMFORM: expression `{short(e, 60)}` not understood")
    rets = [r for r in f.node.body if isinstance(r, ast.Return)]
    need(len(rets) == 1 and isinstance(rets[0].value, ast.Tuple) and len(rets[0].value.elts) == 2, "INVMFORM: form_invMfactors does not return a pair")
    for st in f.node.body:
        if isinstance(st, ast.Expr) and isinstance(st.value, ast.Constant):
            continue
        if st is rets[0]:
            break
        if isinstance(st, (ast.Assign, ast.AnnAssign)) and getattr(st, "value", None) is not None:
            tg = st.targets[0] if isinstance(st, ast.Assign) else st.target
            if isinstance(tg, ast.Name) and src(st.value).replace(" ", "") in ("D.shape[0]", "D.shape[1]", "len(D)"):
                sizes.add(tg.id)          # a name for the order m of D
                continue
            if isinstance(tg, ast.Name):
                env[tg.id] = mx(st.value)
                continue
            # X.flat[::D.shape[0] + 1] = 1 / np.diag(D): X (zeros before) becomes the inverse of the diagonal matrix D
            if isinstance(tg, ast.Subscript) and isinstance(tg.value, ast.Attribute) and tg.value.attr == "flat" and isinstance(tg.value.value, ast.Name) \
                    and isinstance(tg.slice, ast.Slice) and tg.slice.lower is None and tg.slice.upper is None and tg.slice.step is not None \
                    and (src(tg.slice.step).replace(" ", "") in ("D.shape[0]+1", "D.shape[1]+1", "len(D)+1") or
                         (isinstance(tg.slice.step, ast.BinOp) and isinstance(tg.slice.step.op, ast.Add) and src(tg.slice.step.right) == "1"
                          and isinstance(tg.slice.step.left, ast.Name) and tg.slice.step.left.id in sizes)) \
                    and env.get(tg.value.value.id) == 0:
                v_ = st.value
                if isinstance(v_, ast.BinOp) and isinstance(v_.op, ast.Div) and src(v_.left) in ("1", "1.0") and src(v_.right).replace(" ", "") in ("np.diag(D)", "D.diagonal()"):
                    env[tg.value.value.id] = R ** -2
                    continue
                if src(v_).replace(" ", "") in ("np.diag(D)", "D.diagonal()"):
                    env[tg.value.value.id] = R ** 2
                    continue
        raise AnalysisError(f"INVMFORM: statement `{short(st, 60)}` not understood")

    def blocks(t):
        need(isinstance(t, tuple) and t[0] == "hstack" and len(t) == 3 and all(isinstance(c, tuple) and c[0] == "vstack" and len(c) == 3 for c in t[1:]),
             "INVMFORM: a factor is not hstack([vstack([.., ..]), vstack([.., ..])])")
        return t[1][1], t[2][1], t[1][2], t[2][2]        # (11, 12, 21, 22)
    lo, up = blocks(mx(rets[0].value.elts[0])), blocks(mx(rets[0].value.elts[1]))
    return lo, up, rel, (R, L, Lt, S, th)


@rule("INVMSYM", min_instances=3)
def rule_invmsym(ctx: Ctx) -> List[Ob]:
    """the two factors returned by form_invMfactors multiply to the inverse middle matrix [[-D, L'], [L, theta S'S]] of the
    compact representation (with J J' = theta S'S + L D^-1 L' the Cholesky factor), the first is lower and the second upper
    block triangular; bmv applies them in that order (forward solve with the first, backward solve with the second)"""
    f = ctx.repo.func("bfgsmats.form_invMfactors")
    obs: List[Ob] = []
    lo, up, rel, (R, L, Lt, S, th) = _invm_symbolic(f)
    tri = sp.simplify(lo[1]) == 0 and sp.simplify(up[2]) == 0
    obs.append(ob("INVMSYM", "first factor lower, second factor upper block triangular", f, f.node, bool(tri),
                  f"upper-right block of the first factor: {lo[1]}; lower-left block of the second: {up[2]}", construct="block triangular factors"))
    P = [lo[0] * up[0] + lo[1] * up[2], lo[0] * up[1] + lo[1] * up[3], lo[2] * up[0] + lo[3] * up[2], lo[2] * up[1] + lo[3] * up[3]]
    E = [-R * R, Lt, L, th * S]
    names = ("-D", "L'", "L", "theta S'S")
    bad = []
    for nm, p_, e_ in zip(names, P, E):
        d_ = sp.expand(sp.expand(p_).subs(rel) - e_)
        if d_ != 0:
            d_ = sp.expand(sp.expand(p_ - e_).subs(rel))
        if d_ != 0:
            bad.append(f"block {nm}: product gives {sp.expand(p_).subs(rel)}")
    need(len(rel) == 1, "INVMFORM: no Cholesky factorisation found in form_invMfactors")
    obs.append(ob("INVMSYM", "the factors multiply to [[-D, L'], [L, theta S'S]]", f, f.node, not bad,
                  "all four blocks agree (J J' = " + str(list(rel.values())[0]) + ")" if not bad else "; ".join(bad), construct="factor product"))
    # bmv: forward solve with factor 0 (lower), then backward solve with factor 1
    g = ctx.repo.func("bfgsmats.bmv")
    rets = [r for r in walk_no_nested(g.node) if isinstance(r, ast.Return) and r.value is not None]
    need(len(rets) == 1, "INVMFORM: bmv has no single return")
    from ..flow import Expander
    e = Expander(ctx, g).expand_at(rets[0], rets[0].value)
    fp, vp = g.params[0], g.params[1]
    if isinstance(e, ast.Name) and all(isinstance(s_, (ast.Assign, ast.Return, ast.Expr, ast.AnnAssign)) for s_ in g.node.body):
        # straight-line chain  p = v; p = solve(F0, p); p = solve(F1, p); return p : substitute forward
        from ..flow import _Subst as _FS
        vals: Dict[str, ast.expr] = {}
        for s_ in g.node.body:
            if isinstance(s_, (ast.Assign, ast.AnnAssign)) and getattr(s_, "value", None) is not None:
                t_ = s_.targets[0] if isinstance(s_, ast.Assign) else s_.target
                if isinstance(t_, ast.Name):
                    import copy as _cp
                    vals[t_.id] = _FS(dict(vals)).visit(_cp.deepcopy(s_.value))
        if e.id in vals:
            e = vals[e.id]

    def solve(c):
        if isinstance(c, ast.Call) and (dotted(c.func) or "").endswith("solve_triangular") and len(c.args) >= 2:
            lo_ = kw(c, "lower")
            tr_ = kw(c, "trans")
            return src(c.args[0]).replace(" ", ""), c.args[1], (lo_ is not None and src(lo_) == "True"), (tr_ is None or src(tr_) in ("0", "'N'", '"N"'))
        return None
    outer = solve(e)
    okb, whyb = False, f"returns {short(e, 80)}"
    if outer is not None:
        inner = solve(outer[1])
        if inner is not None:
            okb = inner[0] == f"{fp}[0]" and inner[2] and inner[3] and src(inner[1]) == vp and outer[0] == f"{fp}[1]" and not outer[2] and outer[3]
            whyb = f"inner solve with {inner[0]} (lower={inner[2]}) on {short(inner[1])}, outer solve with {outer[0]} (lower={outer[2]})"
    if not okb and isinstance(rets[0].value, ast.Name):
        # loop form: p = v; for factor, is_lower in zip(invMfactors, (True, False)): p = solve_triangular(factor, p, lower=is_lower)
        pn = rets[0].value.id
        loops = [s_ for s_ in g.node.body if isinstance(s_, ast.For)]
        inits = [s_ for s_ in g.node.body if isinstance(s_, ast.Assign) and src(s_.targets[0]) == pn and src(s_.value) == vp]
        if len(loops) == 1 and inits and isinstance(loops[0].target, ast.Tuple) and len(loops[0].target.elts) == 2 \
                and isinstance(loops[0].iter, ast.Call) and dotted(loops[0].iter.func) == "zip" and len(loops[0].iter.args) == 2 \
                and src(loops[0].iter.args[0]) == fp and src(loops[0].iter.args[1]).replace(" ", "") in ("(True,False)", "[True,False]") \
                and len(loops[0].body) == 1:
            fa_, lo_ = src(loops[0].target.elts[0]), src(loops[0].target.elts[1])
            b_ = loops[0].body[0]
            sv = solve(b_.value) if isinstance(b_, ast.Assign) and src(b_.targets[0]) == pn else None
            if sv is not None and sv[0] == fa_ and src(sv[1]) == pn and sv[3] and kw(b_.value, "lower") is not None and src(kw(b_.value, "lower")) == lo_:
                okb = True
                whyb = f"for {fa_}, {lo_} in zip({fp}, (True, False)): {pn} = solve_triangular({fa_}, {pn}, lower={lo_}) starting from {vp}"
    obs.append(ob("INVMSYM", "bmv solves with the lower factor first, then with the upper one", g, rets[0], okb, whyb, construct="bmv: U^-1 (L^-1 v)"))
    return obs
