"""CPFORM, BFGSFORM, SUBFORM, STEPFORM -- numerical kernels compared with their reference formulas up to
algebraic equivalence (symbolic execution into a linear-algebra normal form, sa.symalg).

These rules decide that the *formulas* are those of Byrd, Lu, Nocedal (1995) / Algorithm 778; they do
not decide anything about floating-point error.  A kernel that cannot be interpreted (new construct,
renamed working variable) is ANALYSIS-ERROR, never a pass and never a violation.
"""
from __future__ import annotations

import ast
from typing import Dict, List, Optional, Tuple

import sympy as sp

from ..core import AnalysisError, Func, Ob, dotted, kw, need, ob, short, src, walk_no_nested
from ..runner import Ctx, rule
from ..symalg import Kernel, Sc, Vec, equal, vadd, vscale

S = sp.Symbol


def _sym(*names):
    return [sp.Symbol(n, real=True) for n in names]


def _top_targets(s: ast.stmt) -> List[str]:
    if isinstance(s, ast.Assign):
        return [src(t) for t in s.targets]
    if isinstance(s, (ast.AnnAssign, ast.AugAssign)):
        return [src(s.target)]
    return []


@rule("CPFORM", min_instances=8)
def rule_cpform(ctx: Ctx) -> List[Ob]:
    """generalized Cauchy point (Algorithm CP of Byrd-Lu-Nocedal): the initial f' = -d.d,
    f'' = -theta f' - p.M p, dt_min = -f'/f'', the per-breakpoint updates
    c += dt p; f' += dt f'' + g_b^2 + theta g_b z_b - g_b w_b.M c; f'' -= theta g_b^2 + 2 g_b w_b.M p +
    g_b^2 w_b.M w_b (floored at eps*f''_0); p += g_b w_b; dt_min = -f'/f'', and the final segment
    dt_min = max(dt_min, 0); t_old += dt_min; x_cp(free) = x + t_old d; c += dt_min p -- all decided up
    to algebraic equivalence, with and without a limited-memory matrix"""
    f = ctx.repo.func("cauchy.get_cauchy_point")
    obs: List[Ob] = []
    loops = [s for s in f.node.body if isinstance(s, ast.While)]
    need(len(loops) == 1, "CPFORM: breakpoint loop not found at function level")
    lp = loops[0]
    pre = f.node.body[: f.node.body.index(lp)]
    post = f.node.body[f.node.body.index(lp) + 1:]
    theta, f1, f2, dt, gb, zb, f2o, eps, tcur, told = _sym("theta", "f1", "f2", "dt", "g_b", "z_b", "f2org", "eps", "t_cur", "t_old")
    for use in (True, False):
        tag = "with memory" if use else "empty memory"
        # ---------------- (a) initialisation
        K = Kernel(bindings={"mats.W.T @ d": Vec({"p": 1}), "np.zeros(p.size)": Vec({}), "mats.theta": Sc(theta),
                             "d": Vec({"d": 1}), "mats.invMfactors": Sc(0)},
                   conds={"mats.use_factor": use}, maps={"bmv": "M"})
        init_names = {"p", "c", "f_prime", "f_second", "f2_org", "delta_t_min"}
        sl = [s for s in pre if (set(_top_targets(s)) & init_names) or (isinstance(s, ast.If) and src(s.test) == "mats.use_factor")]
        need(len(sl) >= 5, "CPFORM: initialisation statements (p, c, f_prime, f_second, delta_t_min) not found")
        K.run(sl)
        dd = sp.Symbol("<d|d>")
        pMp = sp.Symbol("<p|M|p>") if use else 0
        ref = {"f_prime": Sc(-dd), "f_second": Sc(theta * dd - pMp), "delta_t_min": Sc(dd / (theta * dd - pMp)),
               "c": Vec({}), "p": Vec({"p": 1})}
        for nm, r in ref.items():
            need(nm in K.env, f"CPFORM: `{nm}` is not defined by the initialisation")
            ok, why = equal(K.env[nm], r)
            obs.append(ob("CPFORM", f"initial {nm} matches Algorithm CP ({tag})", f, sl[0], ok,
                          f"{nm} = {K.env[nm]}" + ("" if ok else f"; reference {r}; {why}"),
                          construct=f"init[{tag}] {nm}"))
        # ---------------- (b) one pass of the loop body
        body = []
        for s in lp.body:
            if isinstance(s, ast.Try):
                break
            body.append(s)
        K = Kernel(bindings={"mats.W[ibp, :]": Vec({"w": 1}), "grad[ibp]": Sc(gb), "x_cp[ibp] - x[ibp]": Sc(zb),
                             "mats.theta": Sc(theta), "mats.invMfactors": Sc(0)},
                   conds={"mats.use_factor": use, "delta_t_min < delta_t": False, "d[ibp] > 0": False, "d[ibp] < 0": False,
                          "d[ibp] != 0": False},
                   maps={"bmv": "M"}, ignore_stores={"d", "x_cp", "d[ibp]"})
        K.env.update({"f_prime": Sc(f1), "f_second": Sc(f2), "delta_t": Sc(dt), "p": Vec({"p": 1}), "c": Vec({"c": 1}),
                      "f2_org": Sc(f2o), "eps_f_sec": Sc(eps), "t_cur": Sc(tcur), "t_old": Sc(told),
                      "_i": Sc(S("i")), "nseg": Sc(S("nseg")), "delta_t_min": Sc(S("dtm"))})
        K.run(body)
        c1 = Vec({"c": 1, "p": dt})
        if use:
            wMc = sp.Symbol("<c|M|w>") + dt * sp.Symbol("<p|M|w>")
            wMp, wMw = sp.Symbol("<p|M|w>"), sp.Symbol("<w|M|w>")
        else:
            wMc = wMp = wMw = 0
        f1n = f1 + dt * f2 + gb ** 2 + theta * gb * zb - gb * wMc
        f2raw = f2 - theta * gb ** 2 - 2 * gb * wMp - gb ** 2 * wMw
        a, b = sorted([sp.expand(f2raw), sp.expand(eps * f2o)], key=sp.default_sort_key)
        f2n = sp.Function("max")(a, b)
        ref = {"c": c1, "f_prime": Sc(f1n), "f_second": Sc(f2n), "p": Vec({"p": 1, "w": gb}), "delta_t_min": Sc(-f1n / f2n),
               "t_old": Sc(tcur)}
        for nm, r in ref.items():
            ok, why = equal(K.env[nm], r)
            obs.append(ob("CPFORM", f"breakpoint update of {nm} matches Algorithm CP ({tag})", f, lp, ok,
                          f"after one breakpoint {nm} = {K.env[nm]}" + ("" if ok else f"; reference {r}; {why}"),
                          construct=f"loop[{tag}] {nm}"))
    # ---------------- (c) final segment
    K = Kernel(bindings={"x": Vec({"x": 1}), "d": Vec({"d": 1})}, conds={}, maps={}, ignore_stores={"x_cp"})
    dtm = sp.Symbol("dtm", real=True)
    K.env.update({"delta_t_min": Sc(dtm), "t_old": Sc(told), "c": Vec({"c": 1}), "p": Vec({"p": 1}), "delta_t": Sc(dt),
                  "t_cur": Sc(tcur)})
    tail = [s for s in post if set(_top_targets(s)) & {"delta_t_min", "t_old", "c"}]
    need(len(tail) >= 2, "CPFORM: final-segment statements (delta_t_min clamp, t_old, c) not found")
    K.run(tail)
    pos = sp.Function("pos")(dtm)
    for nm, r in {"t_old": Sc(told + pos), "c": Vec({"c": 1, "p": pos})}.items():
        ok, why = equal(K.env[nm], r)
        obs.append(ob("CPFORM", f"final segment: {nm} advances by max(dt_min, 0)", f, tail[0], ok,
                      f"{nm} = {K.env[nm]}" + ("" if ok else f"; reference {r}; {why}"), construct=f"tail {nm}"))
    # free variables move to x + t_old * d
    st = [s for s in post if isinstance(s, ast.Assign) and isinstance(s.targets[0], ast.Subscript) and src(s.targets[0].value) == "x_cp"]
    need(len(st) == 1, "CPFORM: store of the free variables into x_cp after the loop not found")
    rhs = st[0].value
    mask_l, mask_r = src(st[0].targets[0].slice), None
    while isinstance(rhs, ast.Subscript):
        mask_r = src(rhs.slice)
        rhs = rhs.value
    v = K.ev(rhs)
    ok, why = equal(v, Vec({"x": 1, "d": told + pos}))
    okm = mask_l == mask_r and mask_l.replace(" ", "") in ("t>=t_cur", "t_cur<=t")
    obs.append(ob("CPFORM", "remaining free variables move to x + t d along the path", f, st[0], ok and okm,
                  f"x_cp[{mask_l}] = ({v})[{mask_r}]" + ("" if ok else f"; {why}") + ("" if okm else "; masks differ / not `t >= t_cur`"),
                  construct="tail x_cp[t >= t_cur] = (x + t_old * d)[t >= t_cur]"))
    # breakpoint times and direction
    K2 = Kernel(bindings={}, conds={}, maps={})
    dsrc = [s for s in pre if _top_targets(s) == ["d"]]
    need(len(dsrc) == 1, "CPFORM: definition of the projected steepest-descent direction d not found")
    dv = dsrc[0].value
    okd = isinstance(dv, ast.Call) and dotted(dv.func) == "np.where" and len(dv.args) == 3 and \
        src(dv.args[0]).replace(" ", "") in ("t==0", "0==t") and src(dv.args[1]) in ("0.0", "0") and src(dv.args[2]) == "-grad"
    obs.append(ob("CPFORM", "direction is -g on variables with a positive breakpoint, 0 on the others", f, dsrc[0], okd,
                  f"d = {short(dv)}", construct="d = where(t == 0, 0, -grad)"))
    return obs


class _StripSub(ast.NodeTransformer):
    def visit_Subscript(self, node):
        return self.visit(node.value)


def _componentwise(e: ast.expr, names: Dict[str, sp.Symbol]) -> Sc:
    e2 = _StripSub().visit(ast.parse(src(e), mode="eval").body)
    K = Kernel(bindings={k: Sc(v) for k, v in names.items()}, conds={}, maps={})
    v = K.ev(e2)
    if not isinstance(v, Sc):
        raise AnalysisError(f"componentwise formula `{short(e)}` is not scalar")
    return v


@rule("RATIOFORM", min_instances=6)
def rule_ratioform(ctx: Ctx) -> List[Ob]:
    """the three bound-ratio formulas are exactly (bound - point) / direction componentwise:
    breakpoints t_i = (x_i - u_i)/g_i for g_i < 0, (x_i - l_i)/g_i for g_i > 0 (Cauchy),
    maximum step (u_i - x_i)/d_i for d_i > 0, (l_i - x_i)/d_i for d_i < 0 (line search, subspace)"""
    obs: List[Ob] = []
    x, lb, ub, g, d = _sym("x", "lb", "ub", "g", "d")
    sites = [("cauchy.get_cauchy_point", {"x": x, "lb": lb, "ub": ub, "grad": g}, "grad",
              {"neg": (x - ub) / g, "pos": (x - lb) / g}),
             ("linesearch.max_allowed_steplength", {"x": x, "lb": lb, "ub": ub, "d": d}, "d",
              {"pos": (ub - x) / d, "neg": (lb - x) / d}),
             ("subspacemin.subspace_minimization", {"xc": x, "lb": lb, "ub": ub, "dHat": d}, "dHat",
              {"pos": (ub - x) / d, "neg": (lb - x) / d})]
    for q, names, dirn, ref in sites:
        f = ctx.repo.func(q)
        parents = {id(c): p for p in ast.walk(f.node) for c in ast.iter_child_nodes(p)}
        n = 0
        for w in walk_no_nested(f.node):
            if isinstance(w, ast.Call) and dotted(w.func) == "np.where" and len(w.args) == 3 and \
                    any(isinstance(y, ast.Name) and y.id in ("lb", "ub") for a in w.args[1:] for y in ast.walk(a)):
                c = w.args[0]
                if not (isinstance(c, ast.Compare) and len(c.ops) == 1):
                    continue
                p = parents.get(id(w))
                denom = p.right if isinstance(p, ast.BinOp) and isinstance(p.op, ast.Div) and p.left is w else None
                true_is_pos = isinstance(c.ops[0], (ast.Gt, ast.GtE))
                for br, lab in ((w.args[1], "pos" if true_is_pos else "neg"), (w.args[2], "neg" if true_is_pos else "pos")):
                    n += 1
                    e = br if denom is None else ast.BinOp(left=br, op=ast.Div(), right=denom)
                    v = _componentwise(e, names)
                    ok, why = equal(v, Sc(ref[lab]))
                    obs.append(ob("RATIOFORM", f"bound ratio for {dirn} {'>' if lab == 'pos' else '<'} 0 is (bound - point)/direction",
                                  f, w, ok, f"{short(e, 60)} = {v.e}" + ("" if ok else f"; reference {ref[lab]}; {why}"),
                                  construct=f"{f.name}: ratio[{dirn}{'>' if lab == 'pos' else '<'}0] {short(e, 50)}"))
        need(n == 2, f"RATIOFORM: expected one bound-ratio np.where in {q}, found {n // 2}")
    return obs
