"""ARGNAME, OFFER, DIRECTION -- wiring of the iteration pipeline (C01, C10, C12)."""
from __future__ import annotations

import ast
from typing import Dict, List, Optional, Set, Tuple

from ..core import AnalysisError, Func, Ob, bind_args, dotted, kw, need, ob, short, src, uncopy, walk_no_nested
from ..flow import node_calls, node_defs
from ..runner import Ctx, rule
from .mainmodel import mainmodel

# parameter names that denote the same role under two spellings (caller's name -> callee's parameter)
ALIASES = {("x_cp", "xc"), ("x", "x0"), ("grad", "g0"), ("x", "xk"), ("grad", "gk"), ("iter", "n_iter"),
           ("bounds", "finite_diff_bounds"), ("jac", "grad"), ("epsilon", "abs_step"), ("eps", "epsilon")}


@rule("ARGNAME", min_instances=25)
def rule_argname(ctx: Ctx) -> List[Ob]:
    """at every call between functions of the package, an argument that is a plain name equal to
    one of the callee's parameter names is bound to that very parameter (no crossed slots such as
    lb <-> ub, x <-> x_cp, f0 <-> f0_old, X <-> G, maxcor <-> mats)"""
    from ..alias import engine
    cg = engine(ctx).cg
    obs: List[Ob] = []
    for q, f in sorted(ctx.repo.funcs.items()):
        for c, tgts in cg.calls[q]:
            for tq in tgts:
                g = ctx.repo.funcs[tq]
                try:
                    b = bind_args(c, g.node, skip_self=(g.cls is not None and g.parent is None))
                except AnalysisError:
                    continue
                params = set(g.params)
                named = {p: e.id for p, e in b.items() if isinstance(e, ast.Name)}
                if len(named) < 2:
                    continue
                crossed = []
                for p, a in named.items():
                    if a != p and a in params:
                        # the caller holds a value called like another parameter of the callee
                        crossed.append(f"`{a}` is passed as `{p}`" + (f" while `{named.get(a)}` is passed as `{a}`" if a in named else ""))
                obs.append(ob("ARGNAME", "like-named arguments go to like-named parameters", f, c, not crossed,
                              f"{g.name}({', '.join(f'{p}={a}' for p, a in named.items())})" if not crossed else
                              "; ".join(crossed) + f" in the call of {g.name}: crossed argument slots",
                              nontrivial=bool(named), construct=f"{f.name} -> {short(c, 80)}"))
    return obs


@rule("OFFER", min_instances=2)
def rule_offer(ctx: Ctx) -> List[Ob]:
    """every accepted iterate is offered to the limited memory: in the accepted-step branch of the
    main loop every path to the next iteration passes update_lbfgs_matrices(copy of x, jac, X, G, ..)
    after the re-evaluation, and its result is the matrix object the next iteration uses"""
    from .budget import _failed_branch
    mm = mainmodel(ctx)
    cfg = mm.cfg
    step, ifs, failed, accepted = _failed_branch(mm)
    ulm = ctx.repo.func("bfgsmats.update_lbfgs_matrices")
    fin = mm.result_of_return(mm.final_return)
    gn = src(kw(fin, "jac"))
    obs: List[Ob] = []
    offers = []
    for n in cfg.nodes:
        if not cfg.in_loop(n, mm.loop):
            continue
        for c in node_calls(n):
            if (dotted(c.func) or "").split(".")[-1] == "update_lbfgs_matrices":
                b = bind_args(c, ulm.node)
                okb = src(uncopy(b.get("xk"))) == mm.x and src(b.get("gk")) == gn and src(b.get("X")) == mm.X and src(b.get("G")) == mm.G \
                    and src(b.get("mats")) == mm.mats
                fresh = b.get("xk") is not None and src(b["xk"]) != mm.x
                tgt = n.ast.targets[0] if isinstance(n.ast, ast.Assign) else None
                okt = tgt is not None and src(tgt) == mm.mats
                offers.append(n)
                obs.append(ob("OFFER", "the accepted point and its gradient are offered to the memory", mm.f, c, okb and fresh and okt,
                              f"xk <- {short(b.get('xk'))} (private copy: {fresh}), gk <- {short(b.get('gk'))}, X/G/mats <- "
                              f"{short(b.get('X'))}/{short(b.get('G'))}/{short(b.get('mats'))}; result bound to {short(tgt) if tgt is not None else 'nothing'}",
                              construct=f"in-loop {short(c, 60)}"))
    # every path from the re-evaluation to the loop head passes an offer (unless it leaves the loop)
    evals = [n for n in cfg.nodes if cfg.in_loop(n, mm.loop) and any((dotted(c.func) or "") == f"{mm.sf}.fun_and_grad" for c in node_calls(n))]
    head = [n for n in cfg.nodes if n.kind == "loophead" and n.owner is mm.loop][0]
    for e in evals:
        skip = cfg.exists_path_avoiding(e, head, lambda m: m in offers or not cfg.in_loop(m, mm.loop))
        obs.append(ob("OFFER", "no accepted step reaches the next iteration without being offered", mm.f, e.ast, not skip and bool(offers),
                      "every path from the re-evaluation back to the loop guard passes update_lbfgs_matrices" if not skip and offers else
                      "a path from the re-evaluation to the next iteration skips the memory update: curvature information of an accepted step is lost",
                      construct="re-evaluation -> update_lbfgs_matrices -> next iteration"))
    return obs


@rule("DIRECTION", min_instances=3)
def rule_direction(ctx: Ctx) -> List[Ob]:
    """the search direction handed to the line search is xbar - x with xbar the subspace point
    computed from the Cauchy point of the current (x, jac)"""
    mm = mainmodel(ctx)
    cfg, rd = mm.cfg, mm.rd
    ls = ctx.repo.func("linesearch.line_search")
    fin = mm.result_of_return(mm.final_return)
    gn = src(kw(fin, "jac"))
    obs: List[Ob] = []
    for n in cfg.nodes:
        for c in node_calls(n):
            if (dotted(c.func) or "").split(".")[-1] != "line_search":
                continue
            b = bind_args(c, ls.node)
            d = b.get("d")
            need(isinstance(d, ast.Name), "DIRECTION: direction argument of line_search is not a name")
            defs = [(dn, v) for dn, v, how in rd.value_exprs(n, d.id)]
            ok = len(defs) == 1 and defs[0][1] is not None and isinstance(defs[0][1], ast.BinOp) and isinstance(defs[0][1].op, ast.Sub) \
                and src(defs[0][1].right) == mm.x and isinstance(defs[0][1].left, ast.Name)
            obs.append(ob("DIRECTION", "direction is (subspace point) - (iterate)", mm.f, defs[0][0].ast if defs and defs[0][0].ast is not None else c, ok,
                          f"{d.id} <- {[short(v) for _, v in defs]}", construct=f"{d.id} = xbar - {mm.x}"))
            if not ok:
                continue
            xbar = defs[0][1].left.id
            dn = defs[0][0]
            xb = [(m, v) for m, v, how in rd.value_exprs(dn, xbar)]
            sm = ctx.repo.func("subspacemin.subspace_minimization")
            ok2 = len(xb) == 1 and isinstance(xb[0][1], ast.Call) and (dotted(xb[0][1].func) or "").split(".")[-1] == "subspace_minimization"
            why = f"{xbar} <- {[short(v, 50) for _, v in xb]}"
            if ok2:
                bb = bind_args(xb[0][1], sm.node)
                xcp = bb.get("xc")
                ok2 = src(bb.get("x")) == mm.x and src(bb.get("grad")) == gn and isinstance(xcp, ast.Name)
                if ok2:
                    cp = [(m, v) for m, v, how in rd.value_exprs(xb[0][0], xcp.id)]
                    gcp = ctx.repo.func("cauchy.get_cauchy_point")
                    ok2 = len(cp) == 1 and isinstance(cp[0][1], ast.Call) and (dotted(cp[0][1].func) or "").split(".")[-1] == "get_cauchy_point"
                    if ok2:
                        b3 = bind_args(cp[0][1], gcp.node)
                        ok2 = src(b3.get("x")) == mm.x and src(b3.get("grad")) == gn
                        why += f"; {xcp.id} <- get_cauchy_point(x={short(b3.get('x'))}, grad={short(b3.get('grad'))})"
            obs.append(ob("DIRECTION", "subspace point comes from the Cauchy point of the current iterate and gradient", mm.f,
                          xb[0][0].ast if xb and xb[0][0].ast is not None else c, ok2, why, construct=f"{xbar} = subspace_minimization(x, x_cp(x, grad), ...)"))
            # x, jac not redefined between the Cauchy point and the line search
            g0 = b.get("g0")
            ok3 = src(b.get("x0")) == mm.x and g0 is not None and src(g0) == gn
            obs.append(ob("DIRECTION", "line search starts from the same iterate and gradient", mm.f, c, ok3,
                          f"x0 <- {short(b.get('x0'))}, g0 <- {short(g0)}", construct="line_search(x0=x, g0=grad)"))
    return obs


@rule("REBUILD", min_instances=2)
def rule_rebuild(ctx: Ctx) -> List[Ob]:
    """before the first iteration the limited-memory matrices are those of the history the run starts with: every path from
    the entry to the main loop either seeds an empty history with the start point (fresh run) or passes
    `mats = update_lbfgs_matrices(copy of x, jac, X, G, .., mats, ..)` on the restored one (restart) -- otherwise a restarted
    run iterates with an identity model while reporting the restored pairs"""
    mm = mainmodel(ctx)
    cfg = mm.cfg
    ulm = ctx.repo.func("bfgsmats.update_lbfgs_matrices")
    fin = mm.result_of_return(mm.final_return)
    gn = src(kw(fin, "jac"))
    obs: List[Ob] = []
    head = [n for n in cfg.nodes if n.kind == "loophead" and n.owner is mm.loop][0]
    pre = cfg.reachable(cfg.entry, follow_exc=False, avoid=lambda m: m is head)
    offers, seeds = [], []
    for n in pre:
        if cfg.in_loop(n, mm.loop):
            continue
        for c in node_calls(n):
            nm = (dotted(c.func) or "").split(".")[-1]
            if nm == "update_lbfgs_matrices":
                b = bind_args(c, ulm.node)
                okb = src(uncopy(b.get("xk"))) == mm.x and src(b.get("gk")) == gn and src(b.get("X")) == mm.X and src(b.get("G")) == mm.G \
                    and src(b.get("mats")) == mm.mats
                fresh = b.get("xk") is not None and src(b["xk"]) != mm.x
                tgt = n.ast.targets[0] if isinstance(n.ast, ast.Assign) else None
                okt = tgt is not None and src(tgt) == mm.mats
                offers.append(n)
                obs.append(ob("REBUILD", "the restored history is turned into matrices before the first iteration", mm.f, c, okb and fresh and okt,
                              f"xk <- {short(b.get('xk'))} (private copy: {fresh}), gk <- {short(b.get('gk'))}, X/G/mats <- "
                              f"{short(b.get('X'))}/{short(b.get('G'))}/{short(b.get('mats'))}; result bound to {short(tgt) if tgt is not None else 'nothing'}",
                              construct=f"pre-loop {short(c, 60)}"))
            if nm == "append" and isinstance(c.func, ast.Attribute) and src(c.func.value) == mm.X:
                seeds.append(n)
    skip = cfg.exists_path_avoiding(cfg.entry, head, lambda m: m in offers or m in seeds)
    obs.append(ob("REBUILD", "no run enters the main loop with matrices that ignore its history", mm.f, mm.loop, not skip and bool(offers),
                  f"{len(offers)} pre-loop update(s), {len(seeds)} seed insertion(s); every path to the loop passes one of them: {not skip}" +
                  ("" if not skip and offers else ": a restarted run can start iterating with the matrices of an empty memory"),
                  construct="entry -> (seed | update_lbfgs_matrices) -> main loop"))
    return obs
