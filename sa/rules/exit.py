"""EXIT, RET, NITB, ONCE -- C04: truthful termination report, budgets.

EXIT explores the control-flow graph of minimize_lbfgsb with a small
path-sensitive abstract state:
   task   the constant last stored into istate.task_str
   succ   the constant last stored into istate.is_success
   know   for pairs of operands (a, b) compared somewhere: the set of orderings
          {LT, EQ, GT} still possible (refined on branch edges, killed when an
          operand is redefined or its object written)
   facts  e.g. 'the callback returned true', 'f0 was tested against the target'
States are split, not joined, so the correlation between the message, the
success flag and the tests that led there is kept (finite: <= a few hundred).
"""
from __future__ import annotations

import ast
from typing import Dict, FrozenSet, List, Optional, Set, Tuple

from .. import tables as T
from ..alias import engine
from ..cfg import CFG, Node
from ..core import AnalysisError, Func, Ob, bind_args, dotted, kw, need, ob, short, src, walk_no_nested
from ..flow import node_defs, node_exprs
from ..runner import Ctx, rule
from .mainmodel import mainmodel

ALL = frozenset(["LT", "EQ", "GT"])
OPS = {ast.Lt: {"LT"}, ast.LtE: {"LT", "EQ"}, ast.Gt: {"GT"}, ast.GtE: {"GT", "EQ"},
       ast.Eq: {"EQ"}, ast.NotEq: {"LT", "GT"}}
FLIP = {"LT": "GT", "GT": "LT", "EQ": "EQ"}


def mentions(e: ast.AST) -> Set[str]:
    out: Set[str] = set()

    def rec(n):
        d = dotted(n)
        if d is not None and isinstance(n, (ast.Name, ast.Attribute)):
            out.add(d)
            return
        for c in ast.iter_child_nodes(n):
            rec(c)
    rec(e)
    return out


def compare_atom(e: ast.AST):
    """(pairkey, orderings-if-true) for `a OP b`, else None"""
    if isinstance(e, ast.Compare) and len(e.ops) == 1 and type(e.ops[0]) in OPS:
        a, b = src(e.left), src(e.comparators[0])
        o = set(OPS[type(e.ops[0])])
        if a > b:
            a, b = b, a
            o = {FLIP[x] for x in o}
        return (a, b), frozenset(o)
    return None


class St:
    __slots__ = ("task", "succ", "know", "facts", "sv")

    def __init__(self, task, succ, know, facts, sv=frozenset()):
        self.task, self.succ, self.know, self.facts, self.sv = task, succ, know, facts, sv

    def key(self):
        return (self.task, self.succ, self.know, self.facts, self.sv)

    def svar(self, name):
        for k, v in self.sv:
            if k == name:
                return v
        return "<unknown>"

    def set_svar(self, name, value):
        return self.with_(sv=frozenset([(k, v) for k, v in self.sv if k != name] + [(name, value)]))

    def __hash__(self):
        return hash(self.key())

    def __eq__(self, o):
        return self.key() == o.key()

    def with_(self, **kw):
        d = {"task": self.task, "succ": self.succ, "know": self.know, "facts": self.facts, "sv": self.sv}
        d.update(kw)
        return St(**d)

    def knows(self, pair) -> FrozenSet[str]:
        for p, o in self.know:
            if p == pair:
                return o
        return ALL

    def learn(self, pair, o: FrozenSet[str]):
        cur = self.knows(pair) & o
        if not cur:
            return None
        kn = frozenset([(p, x) for p, x in self.know if p != pair] + ([(pair, cur)] if cur != ALL else []))
        return self.with_(know=kn)

    def kill(self, keys: Set[str], pair_mentions: Dict[tuple, Set[str]]):
        if not keys:
            return self

        def dead(ms: Set[str]) -> bool:
            return any(m == k or m.startswith(k + ".") for m in ms for k in keys)
        kn = frozenset((p, o) for p, o in self.know if not dead(pair_mentions.get(p, set())))
        fc = frozenset(f for f in self.facts if not (":" in f and dead({f.split(":", 1)[1]})))
        if kn == self.know and fc == self.facts:
            return self
        return self.with_(know=kn, facts=fc)


class Explorer:
    def __init__(self, ctx: Ctx, f: Func, istate: str, helper_summaries: Dict[str, list],
                 callback_names: Set[str] = frozenset()):
        self.ctx, self.f, self.istate = ctx, f, istate
        self.cfg: CFG = ctx.cfg(f)
        self.helpers = helper_summaries
        self.cbnames = callback_names
        self.eng = engine(ctx)
        self.fa = self.eng.fa[f.qual]
        self.pair_mentions: Dict[tuple, Set[str]] = {}
        # value numbering of the compared quantities: a local that holds the result of a pure package function
        # (`sbgnrm = projgr(x, grad, lb, ub)`) is compared as that call, so that what is learnt about it is shared with
        # the other tests of the same quantity and dies when one of the arguments changes
        from ..flow import Expander
        self._exp = Expander(ctx, f, only=lambda v: isinstance(v, ast.Call) and isinstance(v.func, ast.Name)
                             and ctx.repo.resolve_callee(f, v) in ctx.repo.funcs, inline_calls=False)
        self._canon: Dict[int, ast.AST] = {}
        for n in self.cfg.nodes:
            if n.kind == "test":
                at = compare_atom(self.canon(n))
                if at:
                    e = self.canon(n)
                    self.pair_mentions[at[0]] = mentions(e.left) | mentions(e.comparators[0])
        self.mut_at: Dict[Node, Set[str]] = {}
        for m in self.fa.mutations:
            if m.how.startswith(("attribute store", "augmented assignment (in place")):
                continue
            keys = {m.target}
            if m.how.startswith("callee "):
                tq = m.how.split()[1]
                p = m.how.split()[-1]
                aw = callee_attr_writes(ctx, tq, p)
                if aw is not None:
                    keys = {f"{m.target}.{a}" for a in aw}
            self.mut_at.setdefault(m.node, set()).update(keys)
        self.at: Dict[Node, Set[St]] = {}

    def canon(self, n: Node) -> ast.AST:
        e = n.ast
        if id(n) in self._canon:
            return self._canon[id(n)]
        r = e
        if isinstance(e, ast.Compare) and len(e.ops) == 1 and type(e.ops[0]) in OPS:
            try:
                l2 = self._exp.expand(n, e.left, 3) if isinstance(e.left, ast.Name) else e.left
                r2 = self._exp.expand(n, e.comparators[0], 3) if isinstance(e.comparators[0], ast.Name) else e.comparators[0]
                if l2 is not e.left or r2 is not e.comparators[0]:
                    r = ast.copy_location(ast.Compare(left=l2, ops=e.ops, comparators=[r2]), e)
            except Exception:
                r = e
        self._canon[id(n)] = r
        return r

    def defaults(self) -> Tuple[str, Optional[bool]]:
        cls = None
        for cq, c in self.ctx.repo.classes.items():
            if cq.endswith(".InternalState"):
                cls = c
        need(cls is not None, "class InternalState not found")
        task, succ = None, None
        for s in cls.body:
            if isinstance(s, (ast.Assign, ast.AnnAssign)) and isinstance(getattr(s, "value", None), ast.Constant):
                for t in (s.targets if isinstance(s, ast.Assign) else [s.target]):
                    if isinstance(t, ast.Name) and t.id == "task_str":
                        task = s.value.value
                    if isinstance(t, ast.Name) and t.id == "is_success":
                        succ = s.value.value
        need(task is not None and succ is not None, "InternalState.task_str / is_success defaults not found")
        return task, succ

    def step(self, n: Node, st: St) -> List[Tuple[object, St]]:
        """list of (edge label filter or '*', state)"""
        kills = {k for k, _, _ in node_defs(n)} | self.mut_at.get(n, set())
        s = n.ast
        outs: List[Tuple[object, St]] = []
        if n.kind == "test":
            e = s
            at = compare_atom(self.canon(n))
            d = dotted(e)
            if at:
                pair, o = at
                for lab, oo in ((True, o), (False, ALL - o)):
                    st2 = st.learn(pair, frozenset(oo))
                    if st2 is not None:
                        outs.append((lab, st2))
            elif isinstance(e, ast.Compare) and len(e.ops) == 1 and isinstance(e.ops[0], (ast.Is, ast.IsNot)) and isinstance(e.left, ast.Name) \
                    and isinstance(e.comparators[0], ast.Constant) and e.comparators[0].value is None and st.svar(e.left.id) != "<unknown>":
                isnone = st.svar(e.left.id) is None
                lab = isnone if isinstance(e.ops[0], ast.Is) else (not isnone)
                outs.append((lab, st))
            elif d == f"{self.istate}.is_success":
                for lab in (True, False):
                    if st.succ is None or st.succ == lab:
                        outs.append((lab, st.with_(succ=lab)))
            elif self._flag_test(e, st) is not None:
                outs.append((self._flag_test(e, st), st))
            elif isinstance(e, ast.Call):
                hs = self._helper(e)
                if hs is not None:
                    tq, outcomes, b = hs
                    for ret, task, succ, hfacts in outcomes:
                        task = _subst_param(task, b)
                        st2 = st.with_(task=st.task if task == "<in>" else task,
                                       succ=st.succ if succ == "<in>" else succ)
                        fx = set(st2.facts)
                        for hf in hfacts:
                            # 'le:<param a>:<param b>' -> fact about the caller's argument expressions
                            kind, pa, pb = hf.split("|")
                            if pa in b and pb in b:
                                fx.add(f"{kind}|{src(b[pa])}|{src(b[pb])}:{_first_mention(b[pa])}")
                        st2 = st2.with_(facts=frozenset(fx))
                        for lab in ((True, False) if ret is None else (bool(ret),)):
                            outs.append((lab, st2))
                elif isinstance(e.func, ast.Name) and e.func.id in self.cbnames:
                    outs.append((True, st.with_(facts=st.facts | {"CBTRUE"})))
                    outs.append((False, st))
                else:
                    outs = [(True, st), (False, st)]
            else:
                outs = [(True, st), (False, st)]
        else:
            st2 = st
            # helper calls in plain statements
            for e in node_exprs(n):
                for c in [x for x in walk_no_nested(e) if isinstance(x, ast.Call)]:
                    hs = self._helper(c)
                    if hs is not None:
                        pass  # handled below as a fan-out
            if n.kind == "stmt" and isinstance(s, (ast.Assign, ast.AnnAssign)) and getattr(s, "value", None) is not None:
                tg = s.targets if isinstance(s, ast.Assign) else [s.target]
                for t in tg:
                    d = dotted(t)
                    if d == f"{self.istate}.task_str":
                        v = s.value
                        if isinstance(v, ast.Constant) and isinstance(v.value, str):
                            st2 = st2.with_(task=v.value)
                        elif isinstance(v, ast.Name) and isinstance(st2.svar(v.id), str) and st2.svar(v.id) != "<unknown>":
                            st2 = st2.with_(task=st2.svar(v.id))
                        elif isinstance(v, ast.Name) and v.id in self.f.params:
                            st2 = st2.with_(task=f"<param:{v.id}>")
                        else:
                            st2 = st2.with_(task="<non-constant>")
                    elif isinstance(t, ast.Name) and isinstance(s.value, ast.Constant) and \
                            (isinstance(s.value.value, (str, bool)) or s.value.value is None):
                        st2 = st2.set_svar(t.id, s.value.value)      # message variables and boolean verdict flags
                    elif isinstance(t, ast.Name) and st2.svar(t.id) != "<unknown>":
                        st2 = st2.with_(sv=frozenset((k, v) for k, v in st2.sv if k != t.id))
                    elif d == f"{self.istate}.is_success":
                        st2 = st2.with_(succ=s.value.value if isinstance(s.value, ast.Constant) and isinstance(s.value.value, bool) else
                                        st2.svar(s.value.id) if isinstance(s.value, ast.Name) and isinstance(st2.svar(s.value.id), bool) else None)
                    elif d == self.istate and isinstance(s.value, ast.Call) and \
                            (dotted(s.value.func) or "").endswith("InternalState"):
                        task, succ = self.defaults()
                        st2 = st2.with_(task=task, succ=succ)
            fan = [st2]
            # flag = helper(..): the flag records the helper's verdict, outcome by outcome
            flag = None
            if n.kind == "stmt" and isinstance(s, (ast.Assign, ast.AnnAssign)) and getattr(s, "value", None) is not None:
                t0 = s.targets[0] if isinstance(s, ast.Assign) and len(s.targets) == 1 else getattr(s, "target", None)
                if isinstance(t0, ast.Name) and isinstance(s.value, ast.Call) and self._helper(s.value) is not None:
                    flag = t0.id
            for e in node_exprs(n):
                for c in [x for x in walk_no_nested(e) if isinstance(x, ast.Call)]:
                    hs = self._helper(c)
                    if hs is not None:
                        tq, outcomes, b = hs
                        new_fan = []
                        for x in fan:
                            for ret, task, succ, hfacts in outcomes:
                                y = x.with_(task=x.task if _subst_param(task, b) == "<in>" else _subst_param(task, b),
                                            succ=x.succ if succ == "<in>" else succ)
                                if flag is not None and c is s.value:
                                    fx = set(y.facts)
                                    for hf in hfacts:
                                        kind, pa, pb = hf.split("|")
                                        if pa in b and pb in b:
                                            fx.add(f"{kind}|{src(b[pa])}|{src(b[pb])}:{_first_mention(b[pa])}")
                                    y = y.with_(facts=frozenset(fx))
                                    if ret is not None:
                                        y = y.set_svar(flag, bool(ret))
                                new_fan.append(y)
                        fan = new_fan
            outs = [("*", x) for x in fan]
        res = []
        for lab, x in outs:
            res.append((lab, x.kill(kills, self.pair_mentions)))
        return res

    def _flag_test(self, e: ast.expr, st: St):
        """the outcome of `flag` / `not flag` when the flag holds a recorded boolean"""
        neg = False
        while isinstance(e, ast.UnaryOp) and isinstance(e.op, ast.Not):
            e, neg = e.operand, not neg
        if isinstance(e, ast.Name) and isinstance(st.svar(e.id), bool):
            return st.svar(e.id) != neg
        return None

    def _helper(self, c: ast.Call):
        for tq in self.eng.cg.targets(self.f, c):
            if tq in self.helpers:
                g = self.ctx.repo.funcs[tq]
                try:
                    b = bind_args(c, g.node)
                except AnalysisError:
                    b = {}
                return tq, self.helpers[tq], b
        return None

    def run(self, init: St, start: Optional[Node] = None) -> Dict[Node, Set[St]]:
        start = start or self.cfg.entry
        work = [(start, init)]
        self.at = {}
        guard = 0
        while work:
            guard += 1
            if guard > 400000:
                raise AnalysisError("EXIT: state exploration too large")
            n, st = work.pop()
            seen = self.at.setdefault(n, set())
            if st in seen:
                continue
            seen.add(st)
            if n in (self.cfg.exit, self.cfg.raise_exit):
                continue
            for lab, st2 in self.step(n, st):
                for b, elab in self.cfg.succ[n]:
                    if elab == "exc":
                        continue   # exceptional exits propagate to the caller: no result is built
                    if lab == "*" or elab == lab or elab is None:
                        work.append((b, st2))
        return self.at


def _subst_param(task, b):
    if isinstance(task, str) and task.startswith("<param:"):
        a = b.get(task[7:-1])
        return a.value if isinstance(a, ast.Constant) and isinstance(a.value, str) else "<non-constant>"
    return task


def _first_mention(e: ast.AST) -> str:
    ms = sorted(mentions(e))
    return ms[0] if ms else ""


def callee_attr_writes(ctx: Ctx, tq: str, p: str) -> Optional[Set[str]]:
    """attributes of parameter p that callee tq stores into; None if it writes p in another way"""
    eng = engine(ctx)
    fa = eng.fa.get(tq)
    if fa is None:
        return None
    out: Set[str] = set()
    for m in fa.mutations:
        if not any(o[0] == "param" and o[1].split(".")[0] == p for o in m.origins):
            continue
        if m.how.startswith("attribute store") and isinstance(m.site, ast.Attribute):
            out.add(m.site.attr)
        else:
            return None
    return out


def helper_summaries(ctx: Ctx) -> Dict[str, list]:
    """functions that take the internal state as a parameter and store a message:
    outcomes [(returned constant or None, task or '<in>', succ or '<in>', facts)]"""
    if "exit_helpers" in ctx.notes:
        return ctx.notes["exit_helpers"]  # type: ignore
    out: Dict[str, list] = {}
    from ..alias import engine
    cg = engine(ctx).cg
    for _round in range(4):
        grew = False
        for q, f in ctx.repo.funcs.items():
            if q in out or q == "main.minimize_lbfgsb" or f.cls is not None:
                continue
            ps = [p for p in f.params if any(
                isinstance(n, ast.Attribute) and n.attr == "task_str" and isinstance(n.ctx, ast.Store)
                and dotted(n.value) == p for n in walk_no_nested(f.node))]
            if not ps:
                # passes one of its parameters on to an already summarised helper's state parameter
                for c, tgts in cg.calls[q]:
                    for tq in tgts:
                        if tq in out:
                            for a in c.args:
                                if isinstance(a, ast.Name) and a.id in f.params and a.id not in ps:
                                    ps.append(a.id)
            if not ps:
                continue
            ex = Explorer(ctx, f, ps[0], dict(out))
            at = ex.run(St("<in>", "<in>", frozenset(), frozenset()))
            outcomes = set()
            for n in ex.cfg.nodes:
                returns = [n] if (n.kind == "stmt" and isinstance(n.ast, ast.Return)) else []
                for rn in returns:
                    for st in at.get(rn, ()):
                        v = rn.ast.value
                        ret = v.value if isinstance(v, ast.Constant) else None
                        if isinstance(v, ast.Name) and isinstance(st.svar(v.id), bool):
                            ret = st.svar(v.id)         # `flag = False ... flag = True ... return flag`
                        facts = set()
                        for (a, b), o in st.know:
                            if a in f.params and b in f.params:
                                if o <= {"LT", "EQ"}:
                                    facts.add(f"le|{a}|{b}")
                                if o <= {"GT", "EQ"}:
                                    facts.add(f"le|{b}|{a}")
                        outcomes.add((ret, st.task, st.succ, frozenset(facts)))
            # falling off the end (implicit return None)
            for st in at.get(ex.cfg.exit, ()):
                if not any(b is ex.cfg.exit for n2 in ex.cfg.nodes if n2.kind == "stmt" and isinstance(n2.ast, ast.Return) for b, _ in ex.cfg.succ[n2]) or True:
                    pass
            fall = [n2 for n2, lab in ex.cfg.pred[ex.cfg.exit] if not (n2.kind == "stmt" and isinstance(n2.ast, ast.Return))]
            for n2 in fall:
                for st in at.get(n2, ()):
                    for lab2, st2 in ex.step(n2, st):
                        outcomes.add((None, st2.task, st2.succ, frozenset()))
            out[q] = sorted(outcomes, key=repr)
            grew = True
        if not grew:
            break
    ctx.notes["exit_helpers"] = out
    return out


@rule("EXIT", min_instances=12)
def rule_exit(ctx: Ctx) -> List[Ob]:
    """every path to a return of minimize_lbfgsb carries a documented terminal message that is
    true of the returned state (PGTOL: projgr(x, jac) <= gtol still holds at the return;
    ITERATIONS: nit >= maxiter; EVALUATIONS: nfev >= maxfun; TARGET: the returned fun was tested
    against ftarget; CALLBACK: the callback's result was truthy) and success is False exactly
    for the abnormal line-search message"""
    mm = mainmodel(ctx)
    f = mm.f
    obs: List[Ob] = []
    helpers = helper_summaries(ctx)
    need(len(helpers) >= 2, "EXIT: the two stop-criterion helpers were not found")
    # (a) every message assignment of the package is a documented one
    nmsg = 0
    for q, g in sorted(ctx.repo.funcs.items()):
        for s in walk_no_nested(g.node):
            if isinstance(s, ast.Assign) and any(isinstance(t, ast.Attribute) and t.attr == "task_str" for t in s.targets):
                nmsg += 1
                v = s.value
                ok = isinstance(v, ast.Constant) and (v.value in T.TERMINAL_MESSAGES or v.value in T.TRANSIENT_MESSAGES)
                why = ("terminal: " + T.TERMINAL_MESSAGES[v.value]) if ok and v.value in T.TERMINAL_MESSAGES else "transient" if ok \
                    else "unknown or non-constant termination message"
                if not ok and isinstance(v, ast.Name):
                    # the message comes through a parameter (every call site must pass a documented constant) or through a
                    # local that only ever holds documented constants / None
                    consts = []
                    if v.id in g.params:
                        from ..alias import engine as _eng
                        cg = _eng(ctx).cg
                        for q2 in ctx.repo.funcs:
                            for c, tg in cg.calls[q2]:
                                if q in tg:
                                    a = bind_args(c, g.node).get(v.id)
                                    consts.append(a.value if isinstance(a, ast.Constant) else "<non-constant>")
                    else:
                        for x in walk_no_nested(g.node):
                            if isinstance(x, (ast.Assign, ast.AnnAssign)) and getattr(x, "value", None) is not None and \
                                    src(x.targets[0] if isinstance(x, ast.Assign) else x.target) == v.id:
                                consts.append(x.value.value if isinstance(x.value, ast.Constant) else "<non-constant>")
                    ok = bool(consts) and all(c is None or c in T.TERMINAL_MESSAGES or c in T.TRANSIENT_MESSAGES for c in consts)
                    why = f"message taken from `{v.id}`, which only holds {sorted(set(str(c) for c in consts))}"
                obs.append(ob("EXIT", "message is one of the documented set", g, s, ok, why, False))
    need(nmsg >= 5, f"EXIT: only {nmsg} message assignment sites found (9 confirmed by hand)")
    for q, oc in helpers.items():
        g = ctx.repo.funcs[q]
        for ret, task, succ, facts in oc:
            ok = (task == "<in>" and succ == "<in>" and ret is not True) or \
                 (task in T.TERMINAL_MESSAGES and succ is True and ret is True) or \
                 (isinstance(task, str) and task.startswith("<param:") and succ is True)   # constants checked at the call sites
            if task == "CONVERGENCE: F_<=_TARGET":
                ok = ok and any(x.startswith("le|") for x in facts)
            obs.append(ob("EXIT", "helper outcome couples message, success flag and return value", g, g.node, ok,
                          f"returns {ret} with message {task!r}, success {succ!r}, facts {sorted(facts)}",
                          construct=f"{g.name}: return {ret} / {task}"))
    # (b)+(c) explore main
    ex = Explorer(ctx, f, mm.istate, helpers, {"callback"})
    task0, succ0 = ex.defaults()
    at = ex.run(St("<unset>", None, frozenset(), frozenset()))
    ctx.notes["exit_states"] = sum(len(v) for v in at.values())
    for r in mm.returns:
        n = ex.cfg.node_of(r)
        states = at.get(n, set())
        res = mm.result_of_return(r)
        if res is None:
            continue   # RET reports returns that are not a fresh result
        names = {k.arg: k.value for k in res.keywords}
        xn, jn, fn_, nitn, nfn = (src(names.get(k)) if names.get(k) is not None else None
                                  for k in ("x", "jac", "fun", "nit", "nfev"))
        bad: List[str] = []
        rows = 0
        for st in sorted(states, key=lambda s: repr(s.key())):
            rows += 1
            why = None
            if st.task not in T.TERMINAL_MESSAGES:
                why = f"message {st.task!r} is not a terminal reason"
            else:
                kind = T.TERMINAL_MESSAGES[st.task]
                if (st.succ is False) != (kind == "abnormal"):
                    why = f"success={st.succ} with message {st.task!r}"
                elif kind == "pgtol":
                    okp = False
                    for (a, b), o in st.know:
                        # projgr(x, jac, ...) <= gtol-variable, on the returned x and jac
                        for pa, pb, need_o in ((a, b, {"LT", "EQ"}), (b, a, {"GT", "EQ"})):
                            if pa.startswith("projgr(") and o <= need_o:
                                try:
                                    ce = ast.parse(pa, mode="eval").body
                                    if len(ce.args) >= 2 and src(ce.args[0]) == xn and src(ce.args[1]) == jn:
                                        okp = True
                                except SyntaxError:
                                    pass
                    if not okp:
                        why = "PGTOL message but projgr(x, jac) <= gtol is not known to hold at the return"
                elif kind == "maxiter":
                    if not _implied(st, nitn, "maxiter", {"GT", "EQ"}):
                        why = f"ITERATIONS message but {nitn} >= maxiter is not implied on this path"
                elif kind == "maxfun":
                    if not _implied(st, nfn, "maxfun", {"GT", "EQ"}):
                        why = f"EVALUATIONS message but {nfn} >= maxfun is not implied on this path"
                elif kind == "callback":
                    if "CBTRUE" not in st.facts:
                        why = "USER CALLBACK message on a path where the callback's result was not tested true"
                elif kind == "target":
                    if not any(x.startswith("le|") and x.split(":", 1)[1] == _first_mention(names["fun"])
                               for x in st.facts if ":" in x):
                        why = f"TARGET message but the returned fun ({fn_}) was redefined after the test against ftarget"
            if why:
                kn = "; ".join(f"{a} {'/'.join(sorted(o))} {b}" for (a, b), o in sorted(st.know))
                bad.append(f"{why} [path knowledge: {kn or 'none'}; success={st.succ}]")
        need(rows > 0, f"EXIT: return at line {r.lineno} is unreachable in the model")
        obs.append(ob("EXIT", "every state reaching the return is classified truthfully", f, r, not bad,
                      (bad[0] + (f" (+{len(bad) - 1} more)" if len(bad) > 1 else "")) if bad else
                      f"{rows} abstract states (message x success x comparison knowledge) reach this return; "
                      f"messages: {sorted({s.task for s in states})}",
                      construct=f"return OptimizeResult(...)@{'loop-exit' if r is mm.final_return else 'early'} "
                                f"message={src(names.get('message'))}"))
    return obs


def _implied(st: St, a: Optional[str], b: str, want: Set[str]) -> bool:
    if a is None:
        return False
    for (p, q), o in st.know:
        if p == a and q == b and o <= want:
            return True
        if p == b and q == a and {FLIP[x] for x in o} <= want:
            return True
    return False
