"""MEM (C10, C18), FILT / SEED / FLOW (C13) -- discipline of the point / gradient history."""
from __future__ import annotations

import ast
from typing import Dict, List, Optional, Set, Tuple

from ..cfg import Node
from ..core import canon_in, AnalysisError, Func, Ob, bind_args, dotted, kw, need, ob, short, src, walk_no_nested
from ..flow import node_calls, node_defs
from ..runner import Ctx, rule
from .mainmodel import mainmodel

INSERT = {"append", "appendleft"}
REMOVE = {"popleft", "pop"}


def history_names(ctx: Ctx) -> Dict[str, Tuple[str, str]]:
    """function -> (point container name, gradient container name), derived from main's (X, G)
    through argument binding and through the functions whose result main assigns to (X, G)"""
    if "history_names" in ctx.notes:
        return ctx.notes["history_names"]  # type: ignore
    mm = mainmodel(ctx)
    out: Dict[str, Tuple[str, str]] = {mm.f.qual: (mm.X, mm.G)}
    work = [mm.f.qual]
    repo = ctx.repo
    from ..alias import engine
    cg = engine(ctx).cg
    while work:
        q = work.pop()
        f = repo.funcs[q]
        Xn, Gn = out[q]
        for c, tgts in cg.calls[q]:
            for tq in tgts:
                g = repo.funcs[tq]
                try:
                    b = bind_args(c, g.node)
                except AnalysisError:
                    continue
                px = [p for p, e in b.items() if isinstance(e, ast.Name) and e.id == Xn and p in g.params]
                pg = [p for p, e in b.items() if isinstance(e, ast.Name) and e.id == Gn and p in g.params]
                if px and pg and tq not in out:
                    out[tq] = (px[0], pg[0])
                    work.append(tq)
        # producers: `X, G = callee(...)`
        for s in walk_no_nested(f.node):
            if isinstance(s, ast.Assign) and isinstance(s.targets[0], ast.Tuple) and isinstance(s.value, ast.Call) \
                    and [src(e) for e in s.targets[0].elts] == [Xn, Gn]:
                for tq in cg.targets(f, s.value):
                    g = repo.funcs[tq]
                    rets = [r for r in walk_no_nested(g.node) if isinstance(r, ast.Return) and isinstance(r.value, ast.Tuple)
                            and len(r.value.elts) == 2 and all(isinstance(e, ast.Name) for e in r.value.elts)]
                    if rets:
                        nm = (rets[-1].value.elts[0].id, rets[-1].value.elts[1].id)
                        key = tq + "#ret"
                        if key not in out:
                            out[key] = nm
    ctx.notes["history_names"] = out
    return out


def _containers(ctx: Ctx) -> List[Tuple[Func, str, str, str]]:
    """(function, point container, gradient container, role) ; role in param / local"""
    res = []
    for q, (a, b) in history_names(ctx).items():
        role = "local" if q.endswith("#ret") else "param"
        f = ctx.repo.funcs[q.replace("#ret", "")]
        if (f, a, b) not in [(r[0], r[1], r[2]) for r in res]:
            res.append((f, a, b, role))
    return res


def _canon(e: ast.expr, env: Dict[str, ast.expr], depth=0) -> str:
    """canonical form of a small arithmetic expression with local single-assignment names inlined"""
    if depth > 12:
        return src(e)
    if isinstance(e, ast.Name) and e.id in env:
        return _canon(env[e.id], env, depth + 1)
    if isinstance(e, ast.Call):
        d = dotted(e.func)
        if isinstance(e.func, ast.Attribute) and e.func.attr == "dot" and len(e.args) == 1:
            a, b = _canon(e.func.value, env, depth + 1), _canon(e.args[0], env, depth + 1)
            return "dot(" + ",".join(sorted([a, b])) + ")"
        if d in ("np.dot", "np.inner", "np.vdot") and len(e.args) == 2:
            a, b = _canon(e.args[0], env, depth + 1), _canon(e.args[1], env, depth + 1)
            return "dot(" + ",".join(sorted([a, b])) + ")"
    if isinstance(e, ast.BinOp):
        a, b = _canon(e.left, env, depth + 1), _canon(e.right, env, depth + 1)
        if isinstance(e.op, ast.MatMult):
            return "dot(" + ",".join(sorted([a, b])) + ")"
        if isinstance(e.op, ast.Mult):
            return "mul(" + ",".join(sorted([a, b])) + ")"
        if isinstance(e.op, ast.Sub):
            return f"sub({a},{b})"
        if isinstance(e.op, ast.Add):
            return "add(" + ",".join(sorted([a, b])) + ")"
    return src(e)


def curvature_test_ok(f: Func, ctx=None) -> Tuple[bool, str]:
    """is_update_X_and_G(xk, gk, x_old, g_old, eps) returns True exactly under  s.y > eps * y.y"""
    from ..flow import Expander
    ps = f.params
    if len(ps) < 5:
        return False, "signature changed"
    xk, gk, xo, go, eps = ps[:5]
    ex = Expander(ctx, f)
    want_pos = {sorted_dot(f"dot(sub({gk},{go}),sub({xk},{xo}))"), sorted_dot(f"dot(sub({go},{gk}),sub({xo},{xk}))")}
    want_yy = {f"dot(sub({gk},{go}),sub({gk},{go}))", f"dot(sub({go},{gk}),sub({go},{gk}))"}
    cands: List[ast.expr] = []
    for n in walk_no_nested(f.node):
        if isinstance(n, ast.If):
            cands.append(ex.expand_at(n.test, n.test))
        if isinstance(n, ast.Return) and n.value is not None and not isinstance(n.value, ast.Constant):
            v = ex.expand_at(n, n.value)
            if isinstance(v, ast.IfExp) and isinstance(v.body, ast.Constant) and v.body.value is True and \
                    isinstance(v.orelse, ast.Constant) and v.orelse.value is False:
                v = v.test
            if isinstance(v, ast.Call) and dotted(v.func) == "bool" and v.args:
                v = v.args[0]
            cands.append(v)
    for c in cands:
        if isinstance(c, ast.Compare) and len(c.ops) == 1:
            l, r = sorted_dot(_canon(c.left, {})), _canon(c.comparators[0], {})
            op = type(c.ops[0])
            if op is ast.Lt:
                l, r, op = sorted_dot(_canon(c.comparators[0], {})), _canon(c.left, {}), ast.Gt
            if op is ast.Gt and l in want_pos and any(r == "mul(" + ",".join(sorted([eps, yy])) + ")" for yy in want_yy):
                return True, f"`{short(c, 90)}` == s.y > {eps} * y.y (strict)"
            if op in (ast.GtE, ast.LtE):
                return False, f"`{short(c)}` is not strict: a pair with s.y == eps*y.y (e.g. s.y = 0 = y) is accepted and B loses positive definiteness"
    return False, "no comparison  s.y > eps * y.y  found on the accepted pair: " + "; ".join(short(c, 60) for c in cands[:3])


def sorted_dot(s: str) -> str:
    if s.startswith("dot(") and s.endswith(")"):
        inner = s[4:-1]
        # split at top-level comma
        depth, parts, cur = 0, [], ""
        for ch in inner:
            if ch == "(":
                depth += 1
            if ch == ")":
                depth -= 1
            if ch == "," and depth == 0:
                parts.append(cur)
                cur = ""
            else:
                cur += ch
        parts.append(cur)
        return "dot(" + ",".join(sorted(parts)) + ")"
    return s


def _mut_calls(f: Func, names: Tuple[str, str]):
    out = []
    for c in walk_no_nested(f.node):
        if isinstance(c, ast.Call) and isinstance(c.func, ast.Attribute) and c.func.attr in (INSERT | REMOVE | {"extend", "extendleft", "insert", "clear", "remove", "rotate"}) \
                and isinstance(c.func.value, ast.Name) and c.func.value.id in names:
            out.append(c)
    return out


def _parent_body(fn: ast.FunctionDef, node: ast.AST) -> Optional[List[ast.stmt]]:
    for p in ast.walk(fn):
        for field in ("body", "orelse", "finalbody"):
            b = getattr(p, field, None)
            if isinstance(b, list) and any(any(x is node for x in ast.walk(s)) and isinstance(s, ast.Expr) for s in b):
                for s in b:
                    if isinstance(s, ast.Expr) and any(x is node for x in ast.walk(s)):
                        return b
    return None


def _bound_form(t: ast.expr, cname: str) -> Optional[str]:
    """'post' for len(C) > maxcor + 1 (and equivalents), 'pre' for len(C) > maxcor (and equivalents)"""
    if isinstance(t, ast.Compare) and len(t.ops) == 1 and isinstance(t.comparators[0], ast.Call) and \
            dotted(t.comparators[0].func) == "len" and not (isinstance(t.left, ast.Call) and dotted(t.left.func) == "len"):
        flip = {ast.Lt: ast.Gt, ast.Gt: ast.Lt, ast.LtE: ast.GtE, ast.GtE: ast.LtE, ast.Eq: ast.Eq}
        if type(t.ops[0]) in flip:
            t = ast.Compare(left=t.comparators[0], ops=[flip[type(t.ops[0])]()], comparators=[t.left])
    if not (isinstance(t, ast.Compare) and len(t.ops) == 1 and isinstance(t.left, ast.Call) and dotted(t.left.func) == "len"
            and t.left.args and src(t.left.args[0]) == cname):
        return None
    r = src(t.comparators[0]).replace(" ", "")
    op = type(t.ops[0])
    table = {(ast.Gt, "maxcor+1"): "post", (ast.GtE, "maxcor+2"): "post", (ast.Eq, "maxcor+2"): "post",
             (ast.Gt, "1+maxcor"): "post",
             (ast.Gt, "maxcor"): "pre", (ast.GtE, "maxcor+1"): "pre", (ast.Eq, "maxcor+1"): "pre", (ast.GtE, "1+maxcor"): "pre"}
    return table.get((op, r))


@rule("MEM", min_instances=14)
def rule_mem(ctx: Ctx) -> List[Ob]:
    """memory discipline: every insertion into the point / gradient history is a seed (into an
    empty or new container), the checkpoint restore, or guarded by the curvature test
    s.y > eps*y.y (strict) on the very pair being inserted; a rejected pair leaves history and
    matrices untouched; an insertion on the right is followed by the bound test that drops from the
    left (at most maxcor+1 points = maxcor pairs, oldest goes first); X and G move in lock-step"""
    obs: List[Ob] = []
    mm = mainmodel(ctx)
    conts = _containers(ctx)
    need(len(conts) >= 5, f"MEM: only {len(conts)} history scopes found")
    isup = ctx.repo.func("bfgsmats.is_update_X_and_G")
    ok, why = curvature_test_ok(isup, ctx)
    obs.append(ob("MEM", "curvature test is  s.y > eps * y.y  (strict) on one pair", isup, isup.node, ok, why,
                  construct="is_update_X_and_G: acceptance condition"))
    n_ins = 0
    for f, Xn, Gn, role in conts:
        cfg = ctx.cfg(f)
        muts = _mut_calls(f, (Xn, Gn))
        for c in muts:
            cname = c.func.value.id
            other = Gn if cname == Xn else Xn
            meth = c.func.attr
            body = _parent_body(f.node, c)
            # (d) lock-step
            twin = body is not None and any(
                isinstance(s, ast.Expr) and isinstance(s.value, ast.Call) and isinstance(s.value.func, ast.Attribute)
                and s.value.func.attr == meth and src(s.value.func.value) == other for s in body)
            obs.append(ob("MEM", "X and G are mutated in lock-step", f, c, bool(twin),
                          f"{cname}.{meth}() has a twin {other}.{meth}() in the same block" if twin else
                          f"{cname}.{meth}() without the same operation on {other}: points and gradients no longer pair up", False))
            if meth not in INSERT | REMOVE:
                obs.append(ob("MEM", "history is only changed by append/appendleft/popleft", f, c, False,
                              f"{meth}() on the history is outside the FIFO discipline"))
                continue
            n = cfg.node_of(c)
            if meth in REMOVE:
                # removal must be from the left, under a bound test or the retry/cut idiom
                okr = meth == "popleft"
                obs.append(ob("MEM", "removal drops the oldest point", f, c, okr,
                              "popleft() removes the oldest" if okr else "pop() removes the NEWEST point: the most recent curvature information is lost"))
                continue
            n_ins += 1
            val = c.args[0] if c.args else None
            # (a) classification
            kind, fact = _classify_insertion(ctx, f, cfg, n, c, cname, other, Xn, Gn, isup)
            obs.append(ob("MEM", "insertion is a seed, the restore, or guarded by the curvature test", f, c,
                          kind is not None, fact, construct=f"{short(c)} [{kind or 'UNGUARDED'}]"))
            # (c) bounded FIFO for right appends of guarded / restore insertions
            if meth == "append" and kind in ("guarded", "restore"):
                okb, factb = _bounded(ctx, f, cfg, n, c, cname, other)
                obs.append(ob("MEM", "right append is bounded by maxcor+1 points, dropping from the left", f, c, okb, factb,
                              construct=f"bound after {short(c)}"))
    need(n_ins >= 8, f"MEM: only {n_ins} insertion sites found")
    # the accepted pair must be seen entering both histories in update_X_and_G (a mutation the rule cannot see -- through
    # an alias of the container, say -- would make every clause about it pass vacuously)
    upd_ = ctx.repo.func("bfgsmats.update_X_and_G")
    seen_ = {(o.construct.split(".")[0]) for o in obs if o.func == upd_.qual and o.inst.startswith("insertion is a seed")}
    need(len(seen_) >= 2, f"MEM: update_X_and_G is not seen inserting the accepted pair into both histories (recognised insertions into: {sorted(seen_)})")
    # (b) reject-no-touch
    upd = ctx.repo.func("bfgsmats.update_X_and_G")
    cfg = ctx.cfg(upd)
    Xn, Gn = history_names(ctx)[upd.qual]
    mutnodes = [cfg.node_of(c) for c in _mut_calls(upd, (Xn, Gn))]
    for r in walk_no_nested(upd.node):
        if isinstance(r, ast.Return) and isinstance(r.value, ast.Constant) and r.value.value is False:
            rn = cfg.node_of(r)
            dirty = [m for m in mutnodes if rn in cfg.reachable(m, follow_exc=False)]
            obs.append(ob("MEM", "a rejected pair leaves the history untouched", upd, r, not dirty,
                          "no mutation of the history on any path to `return False`" if not dirty else
                          f"line {dirty[0].line} mutates the history before the rejection is returned"))
    ulm = ctx.repo.func("bfgsmats.update_lbfgs_matrices")
    cfg = ctx.cfg(ulm)
    acc = None
    for s in walk_no_nested(ulm.node):
        if isinstance(s, (ast.Assign, ast.AnnAssign)) and isinstance(getattr(s, "value", None), ast.Call) and \
                (dotted(s.value.func) or "").endswith("update_X_and_G"):
            t = s.targets[0] if isinstance(s, ast.Assign) else s.target
            acc = src(t)
    if acc is None:
        # the offer to the memory sits behind a short-circuit (flag or update_X_and_G(..)): when the left operand decides,
        # the new point is never offered to the history although the matrices are rebuilt
        sc = [(b, c) for b in walk_no_nested(ulm.node) if isinstance(b, ast.BoolOp)
              for i, c in enumerate(b.values) if i > 0 and any(isinstance(x, ast.Call) and (dotted(x.func) or "").endswith("update_X_and_G")
                                                                for x in ast.walk(c))]
        if sc:
            b, c = sc[0]
            obs.append(ob("MEM", "every call of the memory update offers the new point to the history", ulm, b, False,
                          f"`{short(b, 80)}`: update_X_and_G is the right operand of a short-circuit -- when `{short(b.values[0], 30)}` "
                          "decides, the new point is not stored (the newest point is not retained) while the matrices are rebuilt",
                          construct="offer to the history behind a short-circuit"))
            return obs
    need(acc is not None, "update_lbfgs_matrices: result of update_X_and_G is not kept")
    gates = [n for n in cfg.nodes if n.kind == "test" and src(n.ast) in (acc, "is_force_update")]
    stores = [n for n in cfg.nodes if any(k.startswith("mats.") for k, _, _ in node_defs(n))]
    need(len(stores) >= 5, "update_lbfgs_matrices: matrix stores not found")
    reach = cfg.reachable(cfg.entry, follow_exc=False, edge_ok=lambda a, b, lab: not (a in gates and lab is True))
    leak = [n for n in stores if n in reach]
    obs.append(ob("MEM", "a rejected pair leaves the matrices untouched", ulm, (leak[0].ast if leak else ulm.node), not leak and len(gates) >= 2,
                  f"all {len(stores)} stores into mats.* are reachable only through `{acc}` or `is_force_update` being true"
                  if not leak and len(gates) >= 2 else
                  (f"line {leak[0].line} writes the matrices although the pair was rejected" if leak else "acceptance gate not found"),
                  construct=f"{len(stores)} stores into mats.* gated by `is_force_update or {acc}`"))
    for c in walk_no_nested(mm.f.node):
        if isinstance(c, ast.Call) and (dotted(c.func) or "").endswith("update_lbfgs_matrices"):
            b = bind_args(c, ulm.node)
            v = b.get("is_force_update")
            okf = isinstance(v, ast.Constant) and v.value is False
            obs.append(ob("MEM", "matrices are never forced to update", mm.f, c, okf,
                          f"is_force_update={short(v)}" + ("" if okf else ": a pair failing the curvature test would still rebuild theta from it"),
                          construct=f"update_lbfgs_matrices(is_force_update={short(v)}) @{'loop' if mm.in_loop(c) else 'pre-loop'}"))
    return obs


def _empty_label(at: ast.AST, names) -> Optional[bool]:
    """edge label of the test atom `at` on which the container (one of `names`) is EMPTY; None if it is not such a test"""
    if isinstance(at, ast.Compare) and len(at.ops) == 1 and isinstance(at.left, ast.Call) and dotted(at.left.func) == "len" \
            and at.left.args and src(at.left.args[0]) in names and isinstance(at.comparators[0], ast.Constant):
        c, op = at.comparators[0].value, at.ops[0]
        if c == 0:
            return True if isinstance(op, (ast.Eq, ast.LtE)) else False if isinstance(op, (ast.Gt, ast.NotEq)) else None
        if c == 1:
            return True if isinstance(op, ast.Lt) else False if isinstance(op, ast.GtE) else None
        return None
    if isinstance(at, ast.Compare) and len(at.ops) == 1 and isinstance(at.comparators[0], ast.Call) and dotted(at.comparators[0].func) == "len" \
            and at.comparators[0].args and src(at.comparators[0].args[0]) in names and isinstance(at.left, ast.Constant):
        c, op = at.left.value, at.ops[0]          # 0 == len(X), 0 < len(X), 1 > len(X) ...
        if c == 0:
            return True if isinstance(op, (ast.Eq, ast.GtE)) else False if isinstance(op, (ast.Lt, ast.NotEq)) else None
        if c == 1:
            return True if isinstance(op, ast.Gt) else False if isinstance(op, ast.LtE) else None
        return None
    if isinstance(at, ast.Name) and at.id in names:
        return False                                  # truth value of the container: `if X:` / `if not X:`
    if isinstance(at, ast.Call) and dotted(at.func) in ("len", "bool") and len(at.args) == 1 and src(at.args[0]) in names:
        return False
    return None


def _none_test(e: ast.AST, name: str) -> Optional[bool]:
    """label of the outcome `name is None` of a test node, if it is such a test"""
    if isinstance(e, ast.Compare) and len(e.ops) == 1 and isinstance(e.left, ast.Name) and e.left.id == name \
            and isinstance(e.comparators[0], ast.Constant) and e.comparators[0].value is None:
        if isinstance(e.ops[0], ast.Is):
            return True
        if isinstance(e.ops[0], ast.IsNot):
            return False
    return None


EMPTY_CTORS = ("deque()", "Deque()", "deque([])", "Deque([])", "collections.deque()", "deque(())")


def _decoder_empty_when_none(ctx) -> Optional[str]:
    """the name of the parameter p of initialize_X_and_G such that, when p is None, the function returns containers it
    created empty and never inserted into"""
    g = ctx.repo.funcs.get("main.initialize_X_and_G")
    if g is None or "checkpoint" not in g.params:
        return None
    p = "checkpoint"
    cfg = ctx.cfg(g)
    if any(k == p for m_ in cfg.nodes for k, _, _ in node_defs(m_) if m_ is not cfg.entry):
        return None
    tests = [(t, _none_test(t.ast, p)) for t in cfg.nodes if t.kind == "test" and _none_test(t.ast, p) is not None]
    if not tests:
        return None
    reach = cfg.reachable(cfg.entry, follow_exc=False, edge_ok=lambda a, b, lab: not any(a is t and lab is (not ln) for t, ln in tests))
    rets = [m_ for m_ in reach if m_.kind == "stmt" and isinstance(m_.ast, ast.Return)]
    if not rets:
        return None
    rd = ctx.rd(g)
    names = set()
    for r_ in rets:
        v = r_.ast.value
        if not (isinstance(v, ast.Tuple) and all(isinstance(e, ast.Name) for e in v.elts)):
            return None
        for e in v.elts:
            names.add(e.id)
            for d, val, how in rd.value_exprs(r_, e.id):
                if d in reach and (val is None or src(val).replace(" ", "") not in EMPTY_CTORS):
                    return None
    for m_ in reach:
        for c_ in node_calls(m_):
            if isinstance(c_.func, ast.Attribute) and isinstance(c_.func.value, ast.Name) and c_.func.value.id in names \
                    and c_.func.attr in MUTATORS_ANY:
                return None
    return p


MUTATORS_ANY = ("append", "appendleft", "extend", "extendleft", "insert", "pop", "popleft", "remove", "clear", "rotate", "reverse")


def _seed_via_decoder(ctx, f, cfg, n: Node, c: ast.Call, Xn: str, Gn: str) -> Optional[str]:
    p = _decoder_empty_when_none(ctx)
    if p is None:
        return None
    dec = ctx.repo.funcs["main.initialize_X_and_G"]
    call_nodes = []
    for m_ in cfg.nodes:
        s_ = m_.ast
        if m_.kind == "stmt" and isinstance(s_, ast.Assign) and isinstance(s_.value, ast.Call) and (dotted(s_.value.func) or "").split(".")[-1] == "initialize_X_and_G" \
                and isinstance(s_.targets[0], ast.Tuple) and [src(e) for e in s_.targets[0].elts] == [Xn, Gn]:
            call_nodes.append(m_)
    if len(call_nodes) != 1:
        return None
    cn = call_nodes[0]
    try:
        b = bind_args(cn.ast.value, dec.node)
    except AnalysisError:
        return None
    ck = b.get(p)
    if not isinstance(ck, ast.Name):
        return None
    if any(k == ck.id for m_ in cfg.nodes for k, _, _ in node_defs(m_) if m_ is not cfg.entry):
        return None
    if any(k in (Xn, Gn) for m_ in cfg.nodes if m_ is not cn for k, _, _ in node_defs(m_)
           if n in cfg.reachable(m_, follow_exc=False) and m_ in cfg.reachable(cn, follow_exc=False)):
        return None
    tests = [(t, _none_test(t.ast, ck.id)) for t in cfg.nodes if t.kind == "test" and _none_test(t.ast, ck.id) is not None]
    if not tests:
        return None
    # forbid the "is None" outcomes: the insertion must then be unreachable
    reach = cfg.reachable(cfg.entry, follow_exc=False, edge_ok=lambda a, b_, lab: not any(a is t and lab is ln for t, ln in tests))
    if n in reach:
        return None
    body = _parent_body(f.node, c)
    same_block = {id(x) for s_ in (body or []) for x in ast.walk(s_)}
    for m_ in cfg.nodes:
        if m_ is n or m_ is cn:
            continue
        for c_ in node_calls(m_):
            if isinstance(c_.func, ast.Attribute) and isinstance(c_.func.value, ast.Name) and c_.func.value.id in (Xn, Gn) and c_.func.attr in MUTATORS_ANY:
                if id(c_) in same_block and c_.func.attr == c.func.attr:
                    continue          # the twin insertion of the same block
                if m_ in cfg.reachable(cn, follow_exc=False) and n in cfg.reachable(m_, follow_exc=False):
                    return None
    return f"histories come from initialize_X_and_G({ck.id}), empty when `{ck.id} is None`, and this insertion is only reachable when `{ck.id} is None`"


def _classify_insertion(ctx, f, cfg, n: Node, c: ast.Call, cname, other, Xn, Gn, isup) -> Tuple[Optional[str], str]:
    meth = c.func.attr
    val = c.args[0] if c.args else None
    # restore: the checkpoint decoder
    if f.qual == "main.initialize_X_and_G":
        return "restore", "checkpoint decoder (ORIENT / FIFO decide its order and bound)"
    # seed: dominated by a test that the container is empty
    for t in cfg.nodes:
        if t.kind != "test":
            continue
        at = t.ast
        empty_lab = _empty_label(at, (Xn, Gn))
        if empty_lab is not None:
            reach = cfg.reachable(cfg.entry, follow_exc=False, edge_ok=lambda a, b, lab: not (a is t and lab is empty_lab))
            if n not in reach:
                return "seed", f"only reachable when `{short(at)}` says the history is empty"
    # seed through the decoder: the histories come from initialize_X_and_G(.., checkpoint, ..), which hands out empty
    # containers when its checkpoint is None, and the insertion is only reachable when that same checkpoint is None
    why_ = _seed_via_decoder(ctx, f, cfg, n, c, Xn, Gn)
    if why_:
        return "seed", why_
    # guarded: only reachable through a successful curvature test on the inserted pair
    from ..flow import Expander
    ex = Expander(ctx, f)
    for t in cfg.nodes:
        if t.kind != "test":
            continue
        tcall = t.ast
        hops = 0
        while isinstance(tcall, ast.Name) and hops < 4:
            # a flag holding the verdict of the curvature test: follow its single binding (without inlining the test)
            vals = ctx.rd(f).value_exprs(t, tcall.id)
            if len(vals) != 1 or vals[0][1] is None:
                break
            tcall = vals[0][1]
            hops += 1
        if isinstance(tcall, ast.Call) and dotted(tcall.func) == "bool" and len(tcall.args) == 1:
            tcall = tcall.args[0]
        if not isinstance(tcall, ast.Call) or not (dotted(tcall.func) or "").endswith("is_update_X_and_G"):
            continue
        reach = cfg.reachable(cfg.entry, follow_exc=False, edge_ok=lambda a, b, lab: not (a is t and lab is True))
        if n in reach:
            continue
        # expand the arguments, not the call itself (the expander would inline the curvature test)
        tcall = ast.copy_location(ast.Call(func=tcall.func, args=[ex.expand(t, a, 4) for a in tcall.args],
                                           keywords=[ast.keyword(arg=k.arg, value=ex.expand(t, k.value, 4)) for k in tcall.keywords]), tcall)
        b = bind_args(tcall, isup.node)
        ps = isup.params
        end = "[-1]" if meth == "append" else "[0]"
        # the pair tested = (inserted point, inserted gradient) vs the adjacent end of the same containers
        body = _parent_body(f.node, c)
        twin = None
        for s in body or []:
            if isinstance(s, ast.Expr) and isinstance(s.value, ast.Call) and isinstance(s.value.func, ast.Attribute) \
                    and s.value.func.attr == meth and src(s.value.func.value) == other and s.value.args:
                twin = s.value.args[0]
        xv, gv = (val, twin) if cname == Xn else (twin, val)
        got = [src(b.get(p)) if b.get(p) is not None else None for p in ps[:5]]
        exp = [src(ex.expand(n, xv, 4)) if xv is not None else None, src(ex.expand(n, gv, 4)) if gv is not None else None,
               f"{Xn}{end}", f"{Gn}{end}"]
        if got[:4] == exp:
            e = b.get(ps[4])
            return "guarded", f"reachable only if `{short(tcall, 70)}` holds; tested pair == inserted pair vs {Xn}{end}, {Gn}{end}; eps <- {short(e)}"
        return None, f"guard `{short(tcall, 70)}` tests ({got[:4]}) but the inserted pair / adjacent end is ({exp})"
    return None, "no path condition shows the container is empty and no curvature test guards this insertion"


@rule("MAXLEN", min_instances=1)
def rule_maxlen(ctx: Ctx) -> List[Ob]:
    """a history container built with a bound evicts silently: if maxlen= is used for the point / gradient deques it must
    be exactly maxcor + 1 (one more point than correction pairs) -- a smaller bound caps the memory below the requested size
    for the rest of the run, a larger one lets it exceed it"""
    obs: List[Ob] = []
    from ..flow import Expander

    def sites(node):
        return [s for s in walk_no_nested(node) if isinstance(s, (ast.Assign, ast.AnnAssign)) and isinstance(getattr(s, "value", None), ast.Call) and
                (dotted(s.value.func) or "").split(".")[-1] in ("deque", "Deque") and kw(s.value, "maxlen") is not None]
    # the expected number of sites on a healthy tree is zero: a positive control keeps the matcher honest on every run
    ctl = ast.parse("def g(x, maxcor):\n    X = Deque([x], maxlen=maxcor)\n    G: Deque = deque([x], maxlen=maxcor + 1)\n").body[0]
    found = sites(ctl)
    judged = [canon_in(kw(s.value, "maxlen"), "maxcor + 1") for s in found]
    anchor = ctx.repo.func("main.minimize_lbfgsb")
    obs.append(ob("MAXLEN", "positive control: the matcher sees bounded deques and tells maxcor from maxcor + 1", anchor, anchor.node,
                  judged == [False, True], f"control fragment: {len(found)} bounded constructor(s), judged {judged}", False,
                  construct="control: Deque([x], maxlen=maxcor) / deque([x], maxlen=maxcor + 1)"))
    for q, f in ctx.repo.funcs.items():
        if f.module.name not in ("main", "bfgsmats") or "maxcor" not in f.params and f.name not in ("minimize_lbfgsb",):
            continue
        ex = Expander(ctx, f)
        for s in sites(f.node):
            if True:
                m_ = ex.expand_at(s, kw(s.value, "maxlen"))
                ok = canon_in(m_, "maxcor + 1")
                obs.append(ob("MAXLEN", "a bounded history deque is bounded by maxcor + 1", f, s, ok,
                              f"maxlen = {short(m_, 60)}" + ("" if ok else ": not maxcor + 1"), construct=short(s, 70)))
    return obs


def _bounded(ctx, f, cfg, n: Node, c: ast.Call, cname: str, other: str) -> Tuple[bool, str]:
    # constructor with maxlen
    for s in walk_no_nested(f.node):
        if isinstance(s, (ast.Assign, ast.AnnAssign)) and isinstance(getattr(s, "value", None), ast.Call) and \
                (dotted(s.value.func) or "").split(".")[-1] in ("deque", "Deque") and kw(s.value, "maxlen") is not None:
            t = s.targets[0] if isinstance(s, ast.Assign) else s.target
            if src(t) == cname and canon_in(kw(s.value, "maxlen"), "maxcor + 1"):
                return True, "container constructed with maxlen=maxcor+1"
    posts, pres = [], []
    for t in cfg.nodes:
        if t.kind == "test":
            # the twin container moves in lock-step (clause d): a bound on either length bounds both
            form = _bound_form(t.ast, cname) or _bound_form(t.ast, other)
            if form == "post":
                posts.append(t)
            elif form == "pre":
                pres.append(t)

    def drops_left(t: Node) -> bool:
        ifs = t.owner
        return isinstance(ifs, (ast.If, ast.While)) and any(
            isinstance(x, ast.Call) and isinstance(x.func, ast.Attribute) and x.func.attr == "popleft"
            and src(x.func.value) == cname for b in ifs.body for x in ast.walk(b))
    # post-append form: every path from the append to the exit passes the test
    for t in posts:
        if drops_left(t) and not cfg.exists_path_avoiding(n, cfg.exit, lambda m: m is t):
            return True, f"every path from the append passes `{short(t.ast)}` which drops from the left"
    # pre-append form (inductive): the test dominates the append, nothing inserted in between
    for t in pres:
        if drops_left(t) and cfg.dominates(t, n):
            return True, f"`{short(t.ast)}` (dropping from the left) dominates the append: length stays <= maxcor+1"
    seen = [short(t.ast) for t in posts + pres]
    return False, ("no bound test of the form len(C) > maxcor + 1 after (or len(C) > maxcor before) the append"
                   + (f"; tests seen: {seen}" if seen else "") + ": the memory is not limited to maxcor pairs / the wrong end is dropped")


# ------------------------------------------------------------------ C13
def _cond_key(e: ast.expr) -> Tuple[str, bool]:
    """(normalised condition, polarity): `a is not None` -> ('a is None', False)"""
    if isinstance(e, ast.Compare) and len(e.ops) == 1 and isinstance(e.comparators[0], ast.Constant) \
            and e.comparators[0].value is None and isinstance(e.ops[0], (ast.Is, ast.IsNot)):
        return f"{src(e.left)} is None", isinstance(e.ops[0], ast.Is)
    return src(e), True


def _known_at(cfg, n0: Node) -> Dict[str, bool]:
    """conditions (normalised source) whose outcome is fixed on every path to n0"""
    known: Dict[str, bool] = {}
    for t in cfg.nodes:
        if t.kind != "test" or not cfg.dominates(t, n0):
            continue
        for lab in (True, False):
            reach = cfg.reachable(cfg.entry, follow_exc=False, edge_ok=lambda a, b, l: not (a is t and l is lab))
            if n0 not in reach:
                k, pol = _cond_key(t.ast)
                known[k] = lab if pol else (not lab)
    return known


@rule("FILT", min_instances=2)
def rule_filt(ctx: Ctx) -> List[Ob]:
    """a gradient history rewritten by the user's update function is filtered by the curvature
    filter (whose result rebinds X, G) before anything consumes it: the matrix update, a callback
    state or a returned result"""
    mm = mainmodel(ctx)
    cfg = mm.cfg
    f = mm.f
    obs: List[Ob] = []
    assigned = {k for n in cfg.nodes for k, _, _ in node_defs(n)}
    upd_nodes = [n for n in cfg.nodes if any(isinstance(c.func, ast.Name) and c.func.id == "update_fun_def" for c in node_calls(n))]
    need(len(upd_nodes) >= 2, "FILT: fewer than two call sites of update_fun_def")

    def is_filter(n: Node) -> bool:
        s = n.ast
        return n.kind == "stmt" and isinstance(s, ast.Assign) and isinstance(s.value, ast.Call) and \
            (dotted(s.value.func) or "").endswith("make_X_and_G_respect_strong_wolfe") and \
            isinstance(s.targets[0], ast.Tuple) and [src(e) for e in s.targets[0].elts] == [mm.X, mm.G] and \
            [src(a) for a in s.value.args[:2]] == [mm.X, mm.G]

    def consumes(n: Node) -> Optional[str]:
        for c in node_calls(n):
            d = dotted(c.func) or ""
            if d.endswith("update_lbfgs_matrices") and any(isinstance(a, ast.Name) and a.id == mm.G for a in c.args):
                return "matrix update"
            if d == "LbfgsInvHessProduct" and any(isinstance(x, ast.Name) and x.id == mm.G for x in ast.walk(c)):
                return "hess_inv of a " + ("callback state" if mm.in_loop(c) else "returned result")
        return None

    # a node that is only reachable while the history is empty discharges the obligation:
    # an empty history has no pair that could violate the curvature condition
    seeds = set()
    for t in cfg.nodes:
        if t.kind == "test":
            lab = _empty_label(t.ast, (mm.X, mm.G))
            if lab is not None:
                seeds |= {b for b, l in cfg.succ[t] if l is lab}
    for u in upd_nodes:
        known = {k: v for k, v in _known_at(cfg, u).items()
                 if not any(nm in assigned for nm in [x.id for x in ast.walk(ast.parse(k, mode='eval')) if isinstance(x, ast.Name)])}

        def edge_ok(a, b, lab):
            if a.kind == "test" and lab in (True, False):
                k, pol = _cond_key(a.ast)
                if k in known:
                    return (lab if pol else (not lab)) == known[k]
            return True
        reach = cfg.reachable(u, avoid=lambda m: is_filter(m) or m in seeds, follow_exc=False, edge_ok=edge_ok)
        bad = [(m, consumes(m)) for m in reach if consumes(m)]
        # a later update call re-starts the obligation; stop there
        bad = sorted(bad, key=lambda p: p[0].line)
        obs.append(ob("FILT", "rewritten history is filtered before it is consumed", f, u.ast, not bad,
                      (f"from this call the {bad[0][1]} at line {bad[0][0].line} is reachable without passing "
                       f"`X, G = make_X_and_G_respect_strong_wolfe(X, G, ...)`" +
                       (f" (+{len(bad) - 1} more consumer(s): " + ", ".join(f"{w}@{m.line}" for m, w in bad[1:4]) + ")" if len(bad) > 1 else "")
                       + ": pairs of the rewritten gradients that violate the curvature condition are used / returned") if bad else
                      "every path to a consumer of G (matrix update, callback state, result) passes the filter"
                      + (f" [path conditions fixed at the call: {known}]" if known else ""),
                      construct=f"{short(u.ast, 80)} @{'loop' if mm.in_loop(u.ast) else 'pre-loop'}"))
    return obs


@rule("SEED", min_instances=2)
def rule_seed(ctx: Ctx) -> List[Ob]:
    """the curvature filter always retains the newest point: its output containers are seeded with
    the last elements of its inputs and afterwards only grow on the left"""
    f = ctx.repo.func("bfgsmats.make_X_and_G_respect_strong_wolfe")
    obs: List[Ob] = []
    Xp, Gp = f.params[0], f.params[1]
    rets = [r for r in walk_no_nested(f.node) if isinstance(r, ast.Return)]
    need(len(rets) == 1 and isinstance(rets[0].value, ast.Tuple) and len(rets[0].value.elts) == 2, "filter does not return a pair")
    for out, inp in zip(rets[0].value.elts, (Xp, Gp)):
        nm = src(out)
        seeds = []
        for s in walk_no_nested(f.node):
            if isinstance(s, (ast.Assign, ast.AnnAssign)) and getattr(s, "value", None) is not None:
                tg, vs = (s.targets[0] if isinstance(s, ast.Assign) else s.target), s.value
                pairs = list(zip(tg.elts, vs.elts)) if isinstance(tg, ast.Tuple) and isinstance(vs, ast.Tuple) else [(tg, vs)]
                for t, v in pairs:
                    if src(t) == nm:
                        seeds.append(v)
        ok = len(seeds) == 1 and isinstance(seeds[0], ast.Call) and (dotted(seeds[0].func) or "").split(".")[-1] in ("deque", "Deque") \
            and seeds[0].args and isinstance(seeds[0].args[0], (ast.List, ast.Tuple)) and len(seeds[0].args[0].elts) == 1 \
            and src(seeds[0].args[0].elts[0]) == f"{inp}[-1]"
        muts = [c for c in walk_no_nested(f.node) if isinstance(c, ast.Call) and isinstance(c.func, ast.Attribute)
                and src(c.func.value) == nm and c.func.attr not in ("appendleft",) and c.func.attr in
                ("append", "pop", "popleft", "clear", "remove", "insert", "extend", "rotate", "reverse")]
        obs.append(ob("SEED", "filter output is seeded with the newest element and only grows on the left", f,
                      seeds[0] if seeds else f.node, ok and not muts,
                      f"{nm} = {short(seeds[0]) if seeds else '?'}; other mutators: {[short(m) for m in muts]}",
                      construct=f"{nm} <- [{inp}[-1]] then appendleft only"))
    return obs


@rule("FLOW", min_instances=2)
def rule_flow(ctx: Ctx) -> List[Ob]:
    """both calls of the update function pass (x, f0, f0_old, grad, X, G) in the documented order
    and rebind (f0, f0_old, grad, G) from the result, so that everything built from G afterwards is
    built from the rewritten gradients"""
    mm = mainmodel(ctx)
    obs: List[Ob] = []
    fin = mm.result_of_return(mm.final_return)
    xn, fn_, gn = src(kw(fin, "x")), src(kw(fin, "fun")), src(kw(fin, "jac"))
    for s in walk_no_nested(mm.f.node):
        if isinstance(s, ast.Assign) and isinstance(s.value, ast.Call) and isinstance(s.value.func, ast.Name) \
                and s.value.func.id == "update_fun_def":
            c = s.value
            args = [src(a) for a in c.args]
            tg = [src(e) for e in s.targets[0].elts] if isinstance(s.targets[0], ast.Tuple) else [src(s.targets[0])]
            okA = len(args) == 6 and args[0] == xn and args[1] == fn_ and args[3] == gn and args[4] == mm.X and args[5] == mm.G \
                and (args[2] in ("f0_old", f"copy.copy({fn_})", f"copy({fn_})", fn_))
            okT = tg == [fn_, "f0_old", gn, mm.G]
            if not okT and len(tg) == 4 and [tg[0], tg[2], tg[3]] == [fn_, gn, mm.G] and tg[1] not in (fn_, gn, mm.G, xn, mm.X):
                # the returned previous value goes to another name: fine when f0_old is dead here (rebound before any read)
                cfg_ = ctx.cfg(mm.f)
                from ..flow import node_defs as _nd, node_uses as _nu
                n0 = cfg_.node_of(s)
                redef = {m_ for m_ in cfg_.nodes if any(k_ == "f0_old" for k_, _, _ in _nd(m_))}
                live = [m_ for m_ in cfg_.reachable(n0, follow_exc=False, avoid=lambda q: q in redef and q is not n0)
                        if m_ is not n0 and "f0_old" in _nu(m_)]
                # a redefining node that also reads f0_old (f0_old = g(f0_old)) counts as a read
                live += [m_ for m_ in redef if "f0_old" in _nu(m_) and m_ in cfg_.reachable(n0, follow_exc=False, avoid=lambda q: q in redef and q is not n0 and q is not m_)]
                okT = not live
            obs.append(ob("FLOW", "update function is called with (x, f0, f0_old, grad, X, G) and rebinds (f0, f0_old, grad, G)",
                          mm.f, s, okA and okT and not c.keywords,
                          f"arguments {args}; targets {tg}", construct=short(s, 100)))
    return obs


@rule("MATSOWN", min_instances=6)
def rule_matsown(ctx: Ctx) -> List[Ob]:
    """who-may-write the compact representation: the fields of an LBFGSB_MATRICES object (theta, S, Y, L, D, W,
    invMfactors) are assigned only inside bfgsmats.py (its constructor and update_lbfgs_matrices), where BFGSFORM
    checks them against the reference formulas; any other module may only replace the whole object by a fresh one"""
    obs: List[Ob] = []
    fields = None
    for q, f in ctx.repo.funcs.items():
        recv: Set[str] = set()
        a = f.node.args
        for p in a.posonlyargs + a.args + a.kwonlyargs:
            if p.annotation is not None and "LBFGSB_MATRICES" in src(p.annotation):
                recv.add(p.arg)
        for s in walk_no_nested(f.node):
            if isinstance(s, (ast.Assign, ast.AnnAssign)) and isinstance(s.value, ast.Call) and (dotted(s.value.func) or "").split(".")[-1] == "LBFGSB_MATRICES":
                for t in (s.targets if isinstance(s, ast.Assign) else [s.target]):
                    if isinstance(t, ast.Name):
                        recv.add(t.id)
            if isinstance(s, ast.Assign) and isinstance(s.value, ast.Call) and (dotted(s.value.func) or "").split(".")[-1] == "update_lbfgs_matrices":
                for t in s.targets:
                    if isinstance(t, ast.Name):
                        recv.add(t.id)
        if not recv:
            continue
        for s in walk_no_nested(f.node):
            tgts = []
            if isinstance(s, ast.Assign):
                tgts = s.targets
            elif isinstance(s, (ast.AugAssign, ast.AnnAssign)):
                tgts = [s.target]
            for t in tgts:
                for tt in (t.elts if isinstance(t, (ast.Tuple, ast.List)) else [t]):
                    base = tt
                    while isinstance(base, ast.Subscript):
                        base = base.value
                    if isinstance(base, ast.Attribute) and isinstance(base.value, ast.Name) and base.value.id in recv:
                        ok = f.module.name == "bfgsmats"
                        obs.append(ob("MATSOWN", "fields of the compact representation are written only by bfgsmats", f, s, ok,
                                      f"`{short(s, 70)}` in module {f.module.name}" + ("" if ok else
                                      ": the matrices no longer are the reference function of the stored pairs"),
                                      False, construct=f"{f.qual}: {short(tt)} <-"))
    return obs


@rule("USEFACT", min_instances=1)
def rule_usefact(ctx: Ctx) -> List[Ob]:
    """"is there a stored pair" is decided exactly: LBFGSB_MATRICES.use_factor compares the factor with the placeholder of an
    empty memory (one entry, equal to 0) by == / != only -- a test up to a tolerance (allclose, isclose, a threshold on the
    magnitude) declares a small-valued memory empty, and the Cauchy and subspace steps then drop the W M W' terms"""
    f = ctx.repo.func("bfgsmats.LBFGSB_MATRICES.use_factor")
    obs: List[Ob] = []
    bad = []
    for n in walk_no_nested(f.node):
        if isinstance(n, ast.Call):
            d = (dotted(n.func) or "").split(".")[-1]
            if d in ("allclose", "isclose", "abs", "fabs", "norm", "max", "min", "amax", "absolute"):
                bad.append((n, f"`{short(n, 50)}`: a magnitude / tolerance test"))
        if isinstance(n, ast.Compare):
            for op, c in zip(n.ops, n.comparators):
                if isinstance(op, (ast.Lt, ast.LtE, ast.Gt, ast.GtE)):
                    bad.append((n, f"`{short(n, 50)}`: an ordering test (threshold), not an equality with the placeholder"))
                for k in [c, n.left]:
                    if isinstance(k, ast.Constant) and isinstance(k.value, float) and k.value not in (0.0, 1.0):
                        bad.append((n, f"`{short(n, 50)}`: compares with {k.value}"))
    rets = [r for r in walk_no_nested(f.node) if isinstance(r, ast.Return) and r.value is not None]
    need(len(rets) >= 1, "USEFACT: use_factor has no return")
    for n, why in bad:
        obs.append(ob("USEFACT", "the memory is recognised as empty by an exact test only", f, n, False, why, construct=short(n, 60)))
    if not bad:
        obs.append(ob("USEFACT", "the memory is recognised as empty by an exact test only", f, rets[0], True,
                      f"returns {short(rets[0].value, 80)}", construct="use_factor"))
    return obs
