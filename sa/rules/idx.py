"""IDX -- index-space typing of the breakpoint bookkeeping in get_cauchy_point (C01, C08).

Types:  Arr(P, V)  array whose positions live in space P and whose values are
                   V = 'data' | 'bool' | ('idx', Q)  (positions of space Q)
        Idx(Q)     scalar position of space Q
        Ctr        integer counter (walks a rank space)
Spaces: 'N' (variables), ('rank', key) from argsort, ('sel', P, mask) from a
boolean selection.  Untypable expressions are TOP and never reported.
"""
from __future__ import annotations

import ast
from typing import Dict, List, Optional, Tuple

from ..core import AnalysisError, Ob, dotted, kw, need, ob, short, src, walk_no_nested
from ..runner import Ctx, rule

TOP = None


class Arr:
    def __init__(self, P, V):
        self.P, self.V = P, V

    def __repr__(self):
        return f"Arr[{_sp(self.P)} -> {_sp(self.V) if isinstance(self.V, tuple) else self.V}]"


class Idx:
    def __init__(self, Q):
        self.Q = Q

    def __repr__(self):
        return f"Idx[{_sp(self.Q)}]"


class Ctr:
    def __repr__(self):
        return "Counter"


def _sp(s) -> str:
    if isinstance(s, tuple):
        if s[0] == "idx":
            return "positions of " + _sp(s[1])
        if s[0] == "rank":
            return f"rank({s[1]})"
        if s[0] == "sel":
            return f"{_sp(s[1])}|{s[2]}"
    return str(s)


ELEMWISE = {"np.abs", "np.sqrt", "np.square", "np.negative", "np.copy", "np.zeros_like", "np.ones_like",
            "np.isfinite", "np.isinf", "np.asarray", "np.array", "np.sign", "np.exp"}


class Typer:
    def __init__(self, f, array_params: List[str], repo=None, env=None, depth=0):
        self.f = f
        self.repo, self.depth = repo, depth
        self.env: Dict[str, object] = dict(env) if env is not None else {p: Arr("N", "data") for p in array_params}
        self.findings: List[Tuple[ast.AST, bool, str]] = []
        self.argsorts: List[Tuple[ast.Call, Optional[str]]] = []
        self.ret = TOP
        self.rename: Dict[str, str] = {}    # callee parameter -> caller argument name (for the sort key)

    def ty(self, e: ast.AST):
        if isinstance(e, ast.Name):
            return self.env.get(e.id, TOP)
        if isinstance(e, ast.Constant):
            return Ctr() if isinstance(e.value, int) and not isinstance(e.value, bool) else TOP
        if isinstance(e, ast.Attribute):
            if dotted(e) and dotted(e).endswith(".W"):
                return Arr("N", "data")   # rows of W are variables
            if e.attr == "T":
                return TOP
            return TOP
        if isinstance(e, ast.UnaryOp):
            t = self.ty(e.operand)
            if isinstance(e.op, ast.Invert) and isinstance(t, Arr) and t.V == "bool":
                return t
            return Arr(t.P, "data") if isinstance(t, Arr) else TOP
        if isinstance(e, ast.BinOp):
            a, b = self.ty(e.left), self.ty(e.right)
            if isinstance(e.op, ast.MatMult):
                return TOP
            if isinstance(e.op, (ast.BitAnd, ast.BitOr)) and isinstance(a, Arr) and isinstance(b, Arr):
                if a.P == b.P:
                    return Arr(a.P, "bool")
                self.findings.append((e, False, f"boolean masks of different position spaces combined: {a} vs {b}"))
                return TOP
            if isinstance(a, Arr) and isinstance(b, Arr):
                if a.P != b.P:
                    self.findings.append((e, False, f"elementwise operation on arrays of different position spaces: {a} vs {b}"))
                    return TOP
                return Arr(a.P, "data")
            if isinstance(a, Arr):
                return Arr(a.P, "data")
            if isinstance(b, Arr):
                return Arr(b.P, "data")
            if isinstance(a, Ctr) and isinstance(b, Ctr):
                return Ctr()
            return TOP
        if isinstance(e, ast.Compare) and len(e.ops) == 1:
            a, b = self.ty(e.left), self.ty(e.comparators[0])
            if isinstance(a, Arr) and isinstance(b, Arr) and a.P != b.P:
                self.findings.append((e, False, f"comparison of arrays of different position spaces: {a} vs {b}"))
                return TOP
            if isinstance(a, Arr):
                return Arr(a.P, "bool")
            if isinstance(b, Arr):
                return Arr(b.P, "bool")
            return TOP
        if isinstance(e, ast.Subscript):
            return self.subscript(e, store=False)
        if isinstance(e, ast.Call):
            d = dotted(e.func)
            if d in ("np.argsort",) or (isinstance(e.func, ast.Attribute) and e.func.attr == "argsort" and not e.args):
                arg = e.args[0] if d == "np.argsort" and e.args else (e.func.value if d != "np.argsort" else None)
                t = self.ty(arg) if arg is not None else TOP
                key = arg.id if isinstance(arg, ast.Name) else None
                if isinstance(arg, ast.Subscript) and isinstance(arg.value, ast.Name):
                    key = arg.value.id   # a selection of the array keeps its values: same order
                self.argsorts.append((e, key))
                if isinstance(t, Arr):
                    return Arr(("rank", src(arg)), ("idx", t.P))
                return TOP
            if d in ("np.flatnonzero",) and e.args:
                t = self.ty(e.args[0])
                if isinstance(t, Arr) and t.V == "bool":
                    return Arr(("sel", t.P, src(e.args[0])), ("idx", t.P))
                return TOP
            if d == "np.where" and len(e.args) == 3:
                c = self.ty(e.args[0])
                for a in e.args[1:]:
                    t = self.ty(a)
                    if isinstance(c, Arr) and isinstance(t, Arr) and t.P != c.P:
                        self.findings.append((e, False, f"np.where: condition {c} and branch {t} live in different position spaces"))
                return Arr(c.P, "data") if isinstance(c, Arr) else TOP
            if d in ELEMWISE and e.args:
                t = self.ty(e.args[0])
                return Arr(t.P, "bool" if d in ("np.isfinite", "np.isinf") else t.V if d in ("np.copy", "np.asarray", "np.array") else "data") \
                    if isinstance(t, Arr) else TOP
            if isinstance(e.func, ast.Attribute) and e.func.attr == "copy":
                return self.ty(e.func.value)
            if d == "len":
                return Ctr()
            g = self._helper(e)
            if g is not None:
                argt = [self.ty(a) for a in e.args]
                if len(argt) == len(g.params):
                    sub = Typer(g, [], self.repo, env=dict(zip(g.params, argt)), depth=self.depth + 1)
                    sub.rename = {p: (a.id if isinstance(a, ast.Name) else None) for p, a in zip(g.params, e.args)}
                    sub.run()
                    self.findings += sub.findings
                    for c, key in sub.argsorts:
                        self.argsorts.append((c, sub.rename.get(key, None) if key in sub.rename else key))
                    return sub.ret
            for a in e.args:
                self.ty(a)   # visit for findings
            return TOP
        return TOP

    def _helper(self, e: ast.Call):
        if self.repo is None or self.depth >= 3 or not isinstance(e.func, ast.Name):
            return None
        q = f"{self.f.module.name}.{e.func.id}"
        g = self.repo.funcs.get(q)
        if g is None or g.cls is not None or g.parent is not None or e.keywords:
            return None
        return g

    def subscript(self, e: ast.Subscript, store: bool):
        A = self.ty(e.value)
        sl = e.slice
        if isinstance(sl, ast.Tuple):   # W[ibp, :]
            first = sl.elts[0]
            it = self.ty(first)
            if isinstance(A, Arr) and isinstance(it, Idx):
                ok = it.Q == A.P
                self.findings.append((e, ok, f"row index {it} into {A}"))
            return TOP
        if isinstance(sl, ast.Slice):
            st = sl.step
            neg = isinstance(st, ast.UnaryOp) and isinstance(st.op, ast.USub)
            if isinstance(A, Arr) and isinstance(A.P, tuple) and A.P[0] == "rank" and neg:
                self.findings.append((e, False, f"{A} reversed by a negative-step slice: breakpoints would be walked in decreasing order"))
            return A if isinstance(A, Arr) and not neg else TOP
        it = self.ty(sl)
        if not isinstance(A, Arr):
            return TOP
        if isinstance(it, Arr) and it.V == "bool":
            ok = it.P == A.P
            self.findings.append((e, ok, f"boolean mask {it} applied to {A}" + ("" if ok else
                                  ": the mask is expressed in another position space than the array it selects from")))
            return Arr(("sel", A.P, src(sl)), A.V) if ok else TOP
        if isinstance(it, Arr) and isinstance(it.V, tuple) and it.V[0] == "idx":
            ok = it.V[1] == A.P
            self.findings.append((e, ok, f"index array {it} applied to {A}" + ("" if ok else ": indices of another space")))
            return Arr(it.P, A.V) if ok else TOP
        if isinstance(it, Idx):
            ok = it.Q == A.P
            self.findings.append((e, ok, f"scalar index {it} applied to {A}" + ("" if ok else ": index of another space")))
            return Idx(A.V[1]) if ok and isinstance(A.V, tuple) else TOP
        if isinstance(it, Ctr):
            if isinstance(sl, ast.Name):
                ok = isinstance(A.P, tuple)   # counters walk rank / selection spaces, never the variables
                self.findings.append((e, ok, f"counter `{sl.id}` applied to {A}" + ("" if ok else
                                      ": a rank counter used as a variable position")))
            return Idx(A.V[1]) if isinstance(A.V, tuple) else TOP
        return TOP

    def run(self):
        fn = self.f.node
        # two passes so that loop-carried names are typed before their uses
        for _ in range(2):
            self.findings = []
            self.argsorts = []
            for s in walk_no_nested(fn):
                if isinstance(s, (ast.Assign, ast.AnnAssign)) and getattr(s, "value", None) is not None:
                    t = self.ty(s.value)
                    for tg in (s.targets if isinstance(s, ast.Assign) else [s.target]):
                        if isinstance(tg, ast.Name):
                            if t is not TOP or tg.id not in self.env:
                                self.env[tg.id] = t
                        elif isinstance(tg, ast.Subscript):
                            self.subscript(tg, store=True)
                elif isinstance(s, ast.AugAssign):
                    self.ty(s.value)
                    if isinstance(s.target, ast.Subscript):
                        self.subscript(s.target, store=True)
                elif isinstance(s, (ast.If, ast.While)):
                    self.ty(s.test)
                elif isinstance(s, ast.For):
                    # iterating an array of positions yields positions of the space its VALUES live in
                    # (`for b in sorted_breakpoints` == `b = sorted_breakpoints[k]` for a counter k of its own space)
                    it = s.iter
                    while isinstance(it, ast.Call) and dotted(it.func) in ("iter", "list", "tuple") and len(it.args) == 1:
                        it = it.args[0]
                    t = self.ty(it)
                    if isinstance(s.target, ast.Name):
                        if isinstance(t, Arr) and isinstance(t.V, tuple) and t.V[0] == "idx":
                            self.env[s.target.id] = Idx(t.V[1])
                        elif isinstance(it, ast.Call) and dotted(it.func) == "range":
                            self.env[s.target.id] = Ctr()
                        elif s.target.id not in self.env:
                            self.env[s.target.id] = TOP
                elif isinstance(s, ast.Expr):
                    self.ty(s.value)
                elif isinstance(s, ast.Return) and s.value is not None:
                    self.ret = self.ty(s.value)


@rule("IDX", min_instances=8)
def rule_idx(ctx: Ctx) -> List[Ob]:
    """breakpoints are consumed in increasing order of their values: the array produced by the
    sort permutation is only ever filtered by masks and indexed by counters of its own (rank)
    space, every array indexed by a breakpoint index lives in the variable space, the sort key is
    the breakpoint array itself and the breakpoint value is read from that same array"""
    f = ctx.repo.func("cauchy.get_cauchy_point")
    ap = [p for p in ("x", "grad", "lb", "ub") if p in f.params]
    need(len(ap) == 4, "get_cauchy_point: array parameters x, grad, lb, ub not found")
    ty = Typer(f, ap, ctx.repo)
    ty.run()
    obs: List[Ob] = []
    seen = set()
    for node, ok, why in ty.findings:
        k = (node.lineno, node.col_offset, why)
        if k in seen:
            continue
        seen.add(k)
        obs.append(ob("IDX", "subscript respects index spaces", f, node, ok, why))
    need(len(ty.argsorts) >= 1, "IDX: no sort permutation (np.argsort) found in get_cauchy_point -- "
                                "the breakpoint order cannot be typed")
    argsorts = list(ty.argsorts)
    for c, key in argsorts:
        desc = any(k.arg in ("reverse", "descending") for k in c.keywords)
        ok = key is not None and not desc
        # the sorted array must be the array of breakpoint values: the one read as t_cur
        tcur = [s for s in walk_no_nested(f.node) if isinstance(s, (ast.Assign, ast.AnnAssign)) and getattr(s, "value", None) is not None
                and isinstance(s.value, ast.Subscript) and isinstance(s.value.value, ast.Name)
                and isinstance(ty.ty(s.value.slice), Idx)
                and any(isinstance(t, ast.Name) and t.id == "t_cur" for t in (s.targets if isinstance(s, ast.Assign) else [s.target]))]
        wrong = [s for s in tcur if s.value.value.id != key]
        obs.append(ob("IDX", "sort key is the breakpoint array itself, ascending", f, c, ok and not wrong and bool(tcur),
                      (f"np.argsort sorts `{short(c.args[0]) if c.args else '?'}`" +
                       ("" if key else ": not the plain breakpoint array (a transformed key changes the order)") +
                       (f"; breakpoint value read from `{wrong[0].value.value.id}` instead of `{key}`" if wrong else "") +
                       ("" if tcur else "; no read of the breakpoint value through a breakpoint index found")),
                      construct=short(c)))
    return obs
