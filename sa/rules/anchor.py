"""ANCHOR -- the restored history is anchored at the emitted point, so the newest retained point must be that point."""
from __future__ import annotations

import ast
from typing import List

from ..core import Ob, dotted, need, ob, short, walk_no_nested
from ..runner import Ctx, rule
from .mem import _containers


@rule("ANCHOR", min_instances=1)
def rule_anchor(ctx: Ctx) -> List[Ob]:
    """a checkpoint carries the emitted point x, its gradient and the *differences* of the retained points; the
    restoration (main.initialize_X_and_G) rebuilds the retained points backwards from checkpoint.x (rule ORIENT fixes that
    base).  The rebuilt memory equals the live one only if, whenever a state is emitted, the newest retained point is the
    emitted x: every path through the memory update that returns normally must have stored the new point.  A path that
    leaves the memory as it was (rejected curvature pair) makes the live run pair the next iterate with the older retained
    point, while a run restarted from that state pairs it with checkpoint.x: the continuations differ from the second
    iteration on."""
    obs: List[Ob] = []
    for f, Xn, Gn, role in _containers(ctx):
        if role != "param":
            continue
        params = set(f.params) - {Xn, Gn}
        stores = [c for c in walk_no_nested(f.node) if isinstance(c, ast.Call) and isinstance(c.func, ast.Attribute)
                  and c.func.attr in ("append", "appendleft") and dotted(c.func.value) == Xn and c.args
                  and any(isinstance(x, ast.Name) and x.id in params for x in ast.walk(c.args[0]))]
        if not stores:
            continue            # not the per-iteration update of the memory
        cfg = ctx.cfg(f)
        snodes = set()
        for c in stores:
            try:
                snodes.add(cfg.node_of(c))
            except Exception:
                pass
        need(snodes, f"ANCHOR: store sites of {f.qual} not found in its flow graph")
        rets = [n for n in cfg.nodes if n.ast is not None and isinstance(n.ast, ast.Return)]
        targets = rets or [cfg.exit]
        bad = [n for n in targets if n not in snodes and
               cfg.exists_path_avoiding(cfg.entry, n, lambda m: m in snodes, follow_exc=False)]
        if not rets and not bad and cfg.exists_path_avoiding(cfg.entry, cfg.exit, lambda m: m in snodes, follow_exc=False):
            bad = [cfg.exit]
        where = bad[0].ast if bad and bad[0].ast is not None else f.node
        obs.append(ob("ANCHOR", "every normal path of the memory update stores the new point (the restoration anchors the history at checkpoint.x)",
                      f, where, not bad,
                      (f"`{short(where, 40)}` (line {getattr(where, 'lineno', '?')}) is reached without `{Xn}.append(<new point>)`: the state emitted after "
                       f"this iteration has x != {Xn}[-1], and a restart from it rebuilds the retained points from checkpoint.x"
                       if bad else f"{len(stores)} store site(s) on every path to {len(targets)} exit(s)"),
                      construct=f"{f.name}: all paths store the new point"))
    need(obs, "ANCHOR: no per-iteration update of the point history (X.append(<parameter>)) found")
    return obs
