"""CARRIED -- quantities accumulated from one iteration to the next are restored from the checkpoint."""
from __future__ import annotations

import ast
from typing import Dict, List, Set

from ..core import Ob, bind_args, AnalysisError, dotted, need, ob, short, src, walk_no_nested
from ..runner import Ctx, rule
from .mainmodel import mainmodel

# locals of the main loop whose restoration is decided by another rule (one line of reason each)
RESTORED_ELSEWHERE = {
    "x": "RESTARTX: the start point of a restart is exactly checkpoint.x",
    "mats": "REBUILD: a restart turns the restored history into matrices before its first iteration",
}


def _state_names(ctx: Ctx) -> Dict[str, str]:
    """function qual -> name under which the solver's InternalState object is known there"""
    mm = mainmodel(ctx)
    out = {mm.f.qual: mm.istate}
    from ..alias import engine
    cg = engine(ctx).cg
    work = [mm.f.qual]
    while work:
        q = work.pop()
        f = ctx.repo.funcs[q]
        for c, tgts in cg.calls[q]:
            for tq in tgts:
                g = ctx.repo.funcs[tq]
                try:
                    b = bind_args(c, g.node)
                except AnalysisError:
                    continue
                for p, e in b.items():
                    if isinstance(e, ast.Name) and e.id == out[q] and p in g.params and tq not in out:
                        out[tq] = p
                        work.append(tq)
    return out


@rule("CARRIED", min_instances=1)
def rule_carried(ctx: Ctx) -> List[Ob]:
    """a quantity whose new value is computed from its own previous value (a counter, a streak, a running extremum) lives
    across iterations; a run restarted from a callback state continues like the uninterrupted one only if every such
    quantity is initialised from the checkpoint on a restart.  Decided for the attributes of the solver's state object
    (wherever they are written) and for the locals of the main loop."""
    mm = mainmodel(ctx)
    names = _state_names(ctx)
    obs: List[Ob] = []
    # restored attributes / locals: assigned before the loop from an expression that mentions the checkpoint
    pre: List[ast.stmt] = []
    for s in mm.f.node.body:
        if s is mm.loop:
            break
        pre.append(s)
    restored_attr: Set[str] = set()
    restored_loc: Set[str] = set()
    for s in pre:
        for n in ast.walk(s):
            if isinstance(n, (ast.Assign, ast.AnnAssign)) and getattr(n, "value", None) is not None and \
                    any(isinstance(x, ast.Name) and x.id == "checkpoint" for x in ast.walk(n.value)):
                for t in (n.targets if isinstance(n, ast.Assign) else [n.target]):
                    for t_ in (t.elts if isinstance(t, ast.Tuple) else [t]):
                        d = dotted(t_)
                        if d and d.startswith(mm.istate + "."):
                            restored_attr.add(d.split(".", 1)[1])
                        elif isinstance(t_, ast.Name):
                            restored_loc.add(t_.id)
    # accumulating attribute writes
    seen_attr: Dict[str, tuple] = {}
    for q, nm in names.items():
        f = ctx.repo.funcs[q]
        for n in walk_no_nested(f.node):
            tg, val = None, None
            if isinstance(n, ast.AugAssign):
                tg, val = n.target, None
            elif isinstance(n, ast.Assign) and len(n.targets) == 1:
                tg, val = n.targets[0], n.value
            d = dotted(tg) if tg is not None else None
            if not d or not d.startswith(nm + ".") or d.count(".") != 1:
                continue
            a = d.split(".", 1)[1]
            selfdep = val is None or any(dotted(x) == d and isinstance(getattr(x, "ctx", None), ast.Load) for x in ast.walk(val))
            if selfdep and a not in seen_attr:
                seen_attr[a] = (f, n)
    for a, (f, n) in sorted(seen_attr.items()):
        ok = a in restored_attr
        obs.append(ob("CARRIED", "a state attribute accumulated across iterations is restored from the checkpoint", f, n, ok,
                      (f"`{short(n, 60)}`: restored before the loop from the checkpoint" if ok else
                       f"`{short(n, 60)}` computes {mm.istate}.{a} from its previous value, but no statement before the main loop sets it from the "
                       f"checkpoint: a run restarted from a callback state starts the count again"),
                      construct=f"{mm.istate}.{a} accumulates"))
    # accumulating locals of the main loop
    for n in [x for b in mm.loop.body for x in ast.walk(b)]:
        tg, val = None, None
        if isinstance(n, ast.AugAssign) and isinstance(n.target, ast.Name):
            tg, val = n.target.id, None
        elif isinstance(n, ast.Assign) and len(n.targets) == 1 and isinstance(n.targets[0], ast.Name):
            tg, val = n.targets[0].id, n.value
        if tg is None:
            continue
        selfdep = val is None or any(isinstance(x, ast.Name) and x.id == tg and isinstance(x.ctx, ast.Load) for x in ast.walk(val))
        if not selfdep:
            continue
        # a value recomputed from scratch earlier in the same iteration is not carried: the local must be defined before the loop
        predef = any(isinstance(t, ast.Name) and t.id == tg and isinstance(t.ctx, ast.Store) for s in pre for t in ast.walk(s)) or tg in mm.f.params
        if not predef:
            continue
        ok = tg in restored_loc or tg in RESTORED_ELSEWHERE
        obs.append(ob("CARRIED", "a local accumulated across iterations is restored from the checkpoint", mm.f, n, ok,
                      (f"`{short(n, 60)}`: " + (RESTORED_ELSEWHERE.get(tg) or "restored before the loop from the checkpoint") if ok else
                       f"`{short(n, 60)}` computes {tg} from its previous value, but no statement before the main loop sets it from the checkpoint"),
                      construct=f"{tg} accumulates"))
    need(obs, "CARRIED: no accumulated quantity found (istate.nit is one)")
    return obs
