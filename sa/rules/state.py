"""ESC, NITOFF, SIB, CBUSE (C07); COH, CNT (C05); FIELDS (C06) -- what results and callback states carry."""
from __future__ import annotations

import ast
from typing import Dict, List, Optional, Set, Tuple

from .. import tables as T
from ..alias import engine, is_private, flat, root
from ..cfg import Node
from ..core import canon_in, AnalysisError, Ob, dotted, kw, need, ob, short, src, strip_wrappers, uncopy, walk_no_nested
from ..flow import forward, node_calls, node_defs
from ..runner import Ctx, rule
from .mainmodel import mainmodel


def _nonscalar(os):
    return {o for o in os if o[0] != "scalar"}


@rule("ESC", min_instances=5)
def rule_esc(ctx: Ctx) -> List[Ob]:
    """nothing handed to the callback, and nothing stored in the point / gradient history, can be
    written in place afterwards: for each such value the set of objects it may be (origins) is
    disjoint from the targets of every in-place write reachable from the hand-over"""
    mm = mainmodel(ctx)
    eng = engine(ctx)
    fa = eng.fa[mm.f.qual]
    cfg = mm.cfg
    obs: List[Ob] = []

    def later_writes(n: Node, og) -> List[str]:
        reach = cfg.reachable(n, follow_exc=False)
        out = []
        for m in fa.mutations:
            if m.node in reach and (_nonscalar(m.origins) & og) and not m.how.startswith("attribute store"):
                out.append(f"line {m.node.line}: {m.how} on `{m.target}`")
        return out

    # callback hand-overs
    for c in mm.callback_calls:
        n = cfg.node_of(c)
        handed: List[Tuple[str, ast.expr]] = [(f"positional {i}", a) for i, a in enumerate(c.args)
                                              if not (isinstance(a, ast.Call) and dotted(a.func) == "OptimizeResult")]
        st = mm.callback_state()
        for k in st.keywords:
            if k.arg in ("x", "jac"):
                handed.append((f"state.{k.arg}", k.value))
            if k.arg == "hess_inv" and isinstance(k.value, ast.Call):
                for i, a in enumerate(k.value.args):
                    handed.append((f"state.hess_inv[{i}]", a))
        for what, e in handed:
            og = _nonscalar(fa.eval_at(n, e))
            w = later_writes(n, og)
            obs.append(ob("ESC", f"callback {what} is never written after the hand-over", mm.f, e, not w,
                          (f"`{short(e)}` may be the object(s) {sorted(og)}; " + "; ".join(w[:3]) +
                           ": a state retained by the user changes under their feet") if w else
                          f"origins {sorted(og)}: no in-place write to them is reachable from the callback",
                          construct=f"callback {what} = {short(e, 60)}"))
            # the other direction: the user may post-process what it is given (SciPy hands out copies); it
            # must not be able to move the live iterate through it
            live = _nonscalar(fa.eval_at(n, ast.Name(id=mm.x, ctx=ast.Load())))
            shared = og & live
            if what.startswith("positional") or what == "state.x":
                obs.append(ob("ESC", f"callback {what} is not the live iterate", mm.f, e, not shared,
                              (f"`{short(e)}` may be the very object of `{mm.x}` {sorted(shared)}: a callback that edits its argument "
                               "in place moves the iterate while the memoised f/g and the history keep the old point") if shared else
                              f"disjoint from the objects `{mm.x}` may be",
                              construct=f"callback {what} = {short(e, 60)} vs live {mm.x}"))
    # history stores
    nst = 0
    for n, ck, val, site in fa.stores_into:
        if ck not in (mm.X, mm.G):
            continue
        nst += 1
        og = _nonscalar(val)
        w = later_writes(n, og)
        obs.append(ob("ESC", f"value stored into {ck} is never written afterwards", mm.f, site, not w,
                      (f"stored object(s) {sorted(og)}; " + "; ".join(w[:3]) + ": the stored point/gradient changes, "
                       "so the correction pairs are no longer differences of visited points") if w else
                      f"stored origins {sorted(og)}: private, no later in-place write",
                      construct=f"store into {ck}: {short(site, 70)}"))
        # the stored object must also be out of the *user's* reach: an array owned by the caller of the API
        # (x0, checkpoint.jac, ...) held by reference can be rewritten by user code while the run goes on
        # (a callback that refreshes its kept checkpoint in place, a reused x0 buffer)
        owned = sorted(o for o in og if o[0] == "param" and root(o) in T.API_CALLER_OWNED)
        obs.append(ob("ESC", f"value stored into {ck} is not an object owned by the caller", mm.f, site, not owned,
                      (f"stored object may be {owned}: the history holds the caller's own array by reference; user code "
                       "that writes it during the run (callback refreshing the kept checkpoint in place, reused x0 buffer) "
                       "rewrites a retained point / gradient, so the pairs are no longer differences of visited points") if owned else
                      f"stored origins {sorted(og)}: none is a caller-owned object",
                      construct=f"store into {ck} (ownership): {short(site, 70)}"))
    need(nst >= 4, f"ESC: only {nst} stores into the history found")
    return obs


def _nit_offset_expr(e: ast.expr, nit: str) -> Optional[int]:
    if src(e) == nit:
        return 0
    if isinstance(e, ast.BinOp) and isinstance(e.op, (ast.Add, ast.Sub)) and isinstance(e.right, ast.Constant) \
            and isinstance(e.right.value, int) and src(e.left) == nit:
        return e.right.value if isinstance(e.op, ast.Add) else -e.right.value
    if isinstance(e, ast.BinOp) and isinstance(e.op, ast.Add) and isinstance(e.left, ast.Constant) \
            and isinstance(e.left.value, int) and src(e.right) == nit:
        return e.left.value
    return None


def _offsets(mm, start: Node, stop: Node, nit: str, no_reenter: bool) -> Set[int]:
    """sums of `nit += k` along paths start→stop; with no_reenter the loop body is not entered again"""
    cfg = mm.cfg
    res: Set[int] = set()
    seen: Set[Tuple[Node, int]] = set()
    work = [(start, 0)]
    while work:
        n, off = work.pop()
        if (n, off) in seen or abs(off) > 8:
            continue
        seen.add((n, off))
        if n is stop and (n is not start or off != 0 or (n, off) in seen and len(seen) > 1):
            res.add(off)
            if n is not start:
                continue
        d = 0
        if n is not start or True:
            for k, v, how in node_defs(n):
                if k == nit and how == "aug" and isinstance(n.ast.value, ast.Constant):
                    d = n.ast.value.value if isinstance(n.ast.op, ast.Add) else -n.ast.value.value
        for b, lab in cfg.succ[n]:
            if lab == "exc":
                continue
            if no_reenter and n.kind == "test" and n.owner is mm.loop and cfg.in_loop(b, mm.loop) \
                    and not (b.kind == "test" and b.owner is mm.loop):
                continue   # guard true -> body: a further iteration, not "stopped here"
            work.append((b, off + d))
    return res


@rule("NITOFF", min_instances=1)
def rule_nitoff(ctx: Ctx) -> List[Ob]:
    """the iteration count in the callback state equals the count a run stopped right there
    returns: (increments before the callback in the iteration + constant in the state's nit=)
    == (increments from the callback to the final return without starting another iteration)"""
    mm = mainmodel(ctx)
    nit = f"{mm.istate}.nit"
    st = mm.callback_state()
    cbn = mm.cfg.node_of(mm.callback_calls[0])
    head = [n for n in mm.cfg.nodes if n.kind == "loophead" and n.owner is mm.loop][0]
    e = kw(st, "nit")
    need(e is not None, "callback state has no nit=")
    from ..flow import Expander
    ex = Expander(ctx, mm.f)
    c1 = _nit_offset_expr(ex.expand(cbn, e, 4), nit)
    fin = mm.result_of_return(mm.final_return)
    c2 = _nit_offset_expr(kw(fin, "nit"), nit) if fin is not None and kw(fin, "nit") is not None else None
    retn = mm.cfg.node_of(mm.final_return)
    before = _offsets(mm, head, cbn, nit, no_reenter=False) if False else _path_incs(mm, head, cbn, nit)
    after = _path_incs(mm, cbn, retn, nit, no_reenter=True)
    ok = c1 is not None and c2 is not None and len(before) == 1 and len(after) == 1 and \
        (c1 == list(after)[0] + c2)
    return [ob("NITOFF", "callback state's nit equals the nit of a run stopped at this iteration", mm.f, e, ok,
               f"state passes nit = (value at the callback) + {c1}; from the callback to the final return "
               f"(no further iteration) the counter advances by {sorted(after)} and the result adds {c2}"
               + ("" if ok else ": the retained state and a run stopped here disagree on the iteration number"),
               construct=f"callback state nit={short(e)} vs final nit={short(kw(fin, 'nit')) if fin else '?'}")]


def _path_incs(mm, start: Node, stop: Node, nit: str, no_reenter: bool = False) -> Set[int]:
    cfg = mm.cfg
    res: Set[int] = set()
    seen: Set[Tuple[int, int]] = set()
    work: List[Tuple[Node, int, bool]] = [(start, 0, True)]
    while work:
        n, off, first = work.pop()
        if not first:
            if n is stop:
                res.add(off)
                continue
            if (n.id, off) in seen or abs(off) > 6:
                continue
            seen.add((n.id, off))
        d = 0
        for k, v, how in node_defs(n):
            if k == nit and how == "aug" and isinstance(getattr(n.ast, "value", None), ast.Constant):
                d = n.ast.value.value if isinstance(n.ast.op, ast.Add) else -n.ast.value.value
            elif k == nit and how == "bind" and v is not None and cfg.in_loop(n, mm.loop):
                from ..flow import Expander
                o2 = _nit_offset_expr(Expander(mm.ctx, mm.f).expand(n, v, 4), nit)
                d = o2 if o2 is not None else 99
        for b, lab in cfg.succ[n]:
            if lab == "exc":
                continue
            if no_reenter and n.kind == "test" and n.owner is mm.loop and cfg.in_loop(b, mm.loop) \
                    and not (b.kind == "test" and b.owner is mm.loop):
                continue
            if not no_reenter and b.kind == "loophead" and b.owner is mm.loop:
                continue   # "before the callback in the same iteration": do not go around
            work.append((b, off + d, False))
    return res


@rule("SIB", min_instances=6)
def rule_sib(ctx: Ctx) -> List[Ob]:
    """sibling constructions agree: the callback state and the final result bind the same
    keywords to the same expressions (x may be a copy, nit is NITOFF's business), and every
    LbfgsInvHessProduct is built from (diff of the point history, diff of the gradient history)
    in that order, or from the checkpoint's (sk, yk) with one common row slice"""
    mm = mainmodel(ctx)
    obs: List[Ob] = []
    st = mm.callback_state()
    fin = mm.result_of_return(mm.final_return)
    need(fin is not None, "final return is not an OptimizeResult")
    a = {k.arg: k.value for k in st.keywords}
    b = {k.arg: k.value for k in fin.keywords}
    for k in sorted(set(a) | set(b)):
        if k == "nit":
            continue
        if k not in a or k not in b:
            obs.append(ob("SIB", f"state and result both carry {k}", mm.f, st, False,
                          f"{k} present in {'state' if k in a else 'result'} only", construct=f"keyword {k}"))
            continue
        ea, eb = a[k], b[k]
        if k == "x":
            ea = uncopy(ea)
        same = src(ea) == src(eb)
        obs.append(ob("SIB", f"state.{k} and result.{k} are the same expression", mm.f, a[k], same,
                      f"state: {short(a[k], 70)} / result: {short(b[k], 70)}",
                      construct=f"{k}: {short(a[k], 50)} ~ {short(b[k], 50)}"))
    # hess_inv encoders, package-wide
    nenc = 0
    for q, f in sorted(ctx.repo.funcs.items()):
        for c in walk_no_nested(f.node):
            if isinstance(c, ast.Call) and dotted(c.func) == "LbfgsInvHessProduct":
                nenc += 1
                ok, why = _encoder_ok(c, mm if q == mm.f.qual else None)
                obs.append(ob("SIB", "inverse-Hessian operator is built from (dX, dG) of the histories", f, c, ok, why,
                              construct=short(c, 100)))
    need(nenc >= 3, f"SIB: only {nenc} LbfgsInvHessProduct constructions found")
    # every result / callback state builds its operator here (never hands on a caller-owned one)
    for c in mm.results:
        h = kw(c, "hess_inv")
        okh = isinstance(h, ast.Call) and dotted(h.func) == "LbfgsInvHessProduct"
        obs.append(ob("SIB", "hess_inv of every result is an operator built at the construction", mm.f, h if h is not None else c, okh,
                      f"hess_inv={short(h)}" + ("" if okh else ": not a LbfgsInvHessProduct built from the (bounded) histories -- an operator "
                                               "taken over from elsewhere may carry more than maxcor pairs or pairs of another run"),
                      construct=f"hess_inv= @{_cls(mm, c)}: {short(h, 50)}"))
    return obs


def _diff_of(e: ast.expr) -> Optional[Tuple[str, str]]:
    """('X', axis) if e is [atleast_2d(] np.diff(np.array(X), axis=0) [)]"""
    e = strip_wrappers(e, {"np.atleast_2d"})
    if isinstance(e, ast.Call) and dotted(e.func) == "np.diff" and e.args:
        ax = kw(e, "axis")
        if ax is None and len(e.args) >= 3:
            ax = e.args[2]
        inner = strip_wrappers(e.args[0], {"np.array", "np.asarray", "np.vstack", "np.stack", "list"})
        if isinstance(inner, ast.Name):
            return inner.id, src(ax) if ax is not None else "<default -1>"
    return None


def _encoder_ok(c: ast.Call, mm) -> Tuple[bool, str]:
    if len(c.args) != 2 or c.keywords:
        return False, "operator not built from two positional arrays"
    if mm is not None and all(isinstance(a, ast.Name) for a in c.args):
        # (sk, yk) bound per branch: every pair of definitions made in the same block must be a valid encoder
        n = mm.cfg.node_of(c)
        da = sorted([(d.line, v) for d, v, _ in mm.rd.value_exprs(n, c.args[0].id) if v is not None], key=lambda t: t[0])
        db = sorted([(d.line, v) for d, v, _ in mm.rd.value_exprs(n, c.args[1].id) if v is not None], key=lambda t: t[0])
        if da and len(da) == len(db):
            # freshness: the histories must not change between the computation of the differences and their use
            hist = {mm.X, mm.G}
            writers = [m_ for m_ in mm.cfg.nodes if any(k_ in hist for k_, _, _ in node_defs(m_))]
            try:
                from ..alias import engine as _eng
                fa_ = _eng(mm.ctx).fa[mm.f.qual]
                writers += [m_.node for m_ in fa_.mutations if m_.target in hist]
                writers += [n_ for n_, ck_, _, _ in fa_.stores_into if ck_ in hist]
            except Exception:
                pass
            for nm_ in (c.args[0].id, c.args[1].id):
                for d_, v_, _ in mm.rd.value_exprs(n, nm_):
                    if v_ is None:
                        continue
                    after_d = mm.cfg.reachable(d_, follow_exc=False, avoid=lambda q_: q_ is not d_ and any(k_ == nm_ for k_, _, _ in node_defs(q_)))
                    stale = [w_ for w_ in writers if w_ in after_d and w_ is not d_ and (n in mm.cfg.reachable(
                        w_, follow_exc=False, avoid=lambda q_: any(k_ == nm_ for k_, _, _ in node_defs(q_))) or w_ is n)]
                    if stale:
                        return False, (f"`{nm_}` is computed at line {d_.line} but the history is rewritten at line {stale[0].line} before this "
                                       f"construction on some path: the result carries differences of gradients that are no longer stored")
            whys = []
            for (la, va), (lb_, vb) in zip(da, db):
                ok1, w1 = _encoder_ok(ast.Call(func=c.func, args=[va, vb], keywords=[]), mm)
                whys.append(w1)
                if not ok1:
                    return False, f"definitions at lines {la}/{lb_}: {w1}"
            return True, " | ".join(whys)
    if mm is not None:
        # local names for attribute chains (`past = checkpoint.hess_inv`) are followed
        try:
            from ..flow import Expander
            ax_ = Expander(mm.ctx, mm.f, only=lambda v: isinstance(v, (ast.Attribute, ast.Name)))
            n_ = mm.cfg.node_of(c)
            c = ast.copy_location(ast.Call(func=c.func, args=[ax_.expand(n_, a, 3) for a in c.args], keywords=[]), c)
        except Exception:
            pass
    da, db = _diff_of(c.args[0]), _diff_of(c.args[1])
    if da and db:
        X, G = (mm.X, mm.G) if mm is not None else ("X", "G")
        ok = da[0] == X and db[0] == G and da[1] == "0" and db[1] == "0"
        return ok, f"sk <- diff({da[0]}, axis={da[1]}), yk <- diff({db[0]}, axis={db[1]})" + \
            ("" if ok else f": expected (diff({X}, axis=0), diff({G}, axis=0))")
    # checkpoint's own pairs
    def ck(e):
        sl = None
        if isinstance(e, ast.Subscript):
            sl = src(e.slice)
            e = e.value
        return dotted(e), sl
    (pa, sa), (pb, sb) = ck(c.args[0]), ck(c.args[1])
    if pa and pb and pa.endswith(".hess_inv.sk") and pb.endswith(".hess_inv.yk") and pa.split(".")[0] == pb.split(".")[0]:
        ok = sa == sb and sa is not None and sa.replace(" ", "") in ("-maxcor:", "-maxcor:None")
        return ok, f"checkpoint pairs {pa}[{sa}], {pb}[{sb}]" + ("" if ok else ": the two row slices must both be [-maxcor:] (the most recent maxcor pairs)")
    return False, f"arguments ({short(c.args[0], 40)}, {short(c.args[1], 40)}) are not (dX, dG) of the histories"


@rule("CBUSE", min_instances=2)
def rule_cbuse(ctx: Ctx) -> List[Ob]:
    """the callback can only stop the run: its result is used as the test of one `if` whose body
    sets the user-callback message and the success flag and nothing else, and everything that
    depends on `callback is not None` is that call"""
    mm = mainmodel(ctx)
    obs: List[Ob] = []
    allowed_attrs = {"task_str", "is_success", "warnflag", "status"}
    for c in mm.callback_calls:
        n = mm.cfg.node_of(c)
        ok = n.kind == "test" and n.ast is c
        why = "result is the test of an if" if ok else "the callback's result flows somewhere else than a stop test"
        if ok:
            ifs = n.owner
            extra = []
            for s in ifs.body:
                for sub in ast.walk(s):
                    if isinstance(sub, ast.stmt) and not isinstance(sub, (ast.Pass,)):
                        if isinstance(sub, ast.Assign) and all(isinstance(t, ast.Attribute) and dotted(t.value) == mm.istate
                                                               and t.attr in allowed_attrs for t in sub.targets):
                            continue
                        if isinstance(sub, ast.Expr) and isinstance(sub.value, ast.Call) and \
                                (dotted(sub.value.func) or "").startswith("logger."):
                            continue
                        extra.append(short(sub, 50))
            if ifs.orelse:
                extra.append("else-branch: " + short(ifs.orelse[0], 40))
            ok = not extra
            why = "true branch only sets message / success" if ok else "callback result also controls: " + "; ".join(extra)
        obs.append(ob("CBUSE", "callback result only decides the user-callback stop", mm.f, c, ok, why,
                      construct=f"if callback(...): <stop>"))
    # statements depending on the presence of a callback
    for s in walk_no_nested(mm.f.node):
        if isinstance(s, ast.If) and isinstance(s.test, ast.BoolOp) and isinstance(s.test.op, ast.And) and \
                any(any(c is y for y in ast.walk(s.test)) for c in mm.callback_calls) and \
                any(isinstance(v, ast.Compare) and src(v).replace(" ", "") in ("callbackisnotNone",) for v in s.test.values):
            # merged form `if callback is not None and <...> and callback(...)`: the operands before the call only read
            others = [v for v in s.test.values if not any(any(c is y for y in ast.walk(v)) for c in mm.callback_calls)]
            okm = all(not any(isinstance(y, (ast.Call, ast.NamedExpr)) for y in ast.walk(v)) for v in others)
            obs.append(ob("CBUSE", "presence of a callback changes nothing but the call itself", mm.f, s, okm,
                          "the presence test guards the callback stop test in one condition" if okm else
                          "the merged condition evaluates something with effects before the callback", construct=f"if {short(s.test, 60)}: ..."))
            continue
        if isinstance(s, ast.If) and any(isinstance(x, ast.Name) and x.id == "callback" for x in ast.walk(s.test)) \
                and not any(s.test is c or any(c is y for y in ast.walk(s.test)) for c in mm.callback_calls):
            inner = [x for x in s.body if not (isinstance(x, ast.If) and any(
                any(c is y for y in ast.walk(x.test)) for c in mm.callback_calls))]
            ok = not inner and not s.orelse
            obs.append(ob("CBUSE", "presence of a callback changes nothing but the call itself", mm.f, s, ok,
                          "guarded body is exactly the callback stop test" if ok else
                          "other statements depend on whether a callback was given: " + "; ".join(short(x, 40) for x in inner[:3]),
                          construct=f"if {short(s.test, 60)}: ..."))
    return obs


# ------------------------------------------------------------------ C05
@rule("COH", min_instances=3)
def rule_coh(ctx: Ctx) -> List[Ob]:
    """typestate of (x, fun, jac): a result or callback state is built only where fun is the
    wrapper's value and jac the wrapper's gradient for the very x being reported -- no rebinding
    or in-place write of x, fun or jac lies between the evaluation and the construction (scaling by
    the factor and the user's update function are the two declared redefinitions)"""
    mm = mainmodel(ctx)
    eng = engine(ctx)
    fa = eng.fa[mm.f.qual]
    cfg = mm.cfg
    fin = mm.result_of_return(mm.final_return)
    xn, fn_, gn = src(kw(fin, "x")), src(kw(fin, "fun")), src(kw(fin, "jac"))
    sf = mm.sf
    mut_at: Dict[Node, Set[str]] = {}
    for m in fa.mutations:
        if not m.how.startswith("attribute store"):
            mut_at.setdefault(m.node, set()).add(m.target)

    from .consts import factor_valued_names
    FV = factor_valued_names(mm.f)

    def is_factor(e: ast.expr) -> bool:
        return src(e) == f"{sf}.scaling_factor" or (isinstance(e, ast.Name) and e.id in FV)

    def scaled_self(v: ast.expr, name: str) -> bool:
        return isinstance(v, ast.BinOp) and isinstance(v.op, ast.Mult) and \
            ((src(v.left) == name and is_factor(v.right)) or (src(v.right) == name and is_factor(v.left)))

    def coherent_src(v, kind):
        """is v a value that is coherent with x by construction? kind: 'f' or 'g'"""
        if v is not None and not isinstance(v, ast.IfExp) and src(uncopy(v)).startswith("checkpoint."):
            v = uncopy(v)
        if isinstance(v, ast.IfExp):
            return coherent_src(v.body, kind) and coherent_src(v.orelse, kind)
        if isinstance(v, ast.Call):
            d = dotted(v.func) or ""
            okd = (d in (f"{sf}.fun", f"{sf}.fun_and_grad") if kind == "f" else d in (f"{sf}.grad", f"{sf}.fun_and_grad"))
            return okd and bool(v.args) and src(v.args[0]) == xn
        v = uncopy(v)
        return v is not None and src(v).startswith("checkpoint.") and src(v).endswith(".fun" if kind == "f" else ".jac")

    def transfer(n: Node, st):
        FX, GX = st
        s = n.ast
        defs = node_defs(n)
        if not defs and n not in mut_at:
            return st
        newF, newG = FX, GX
        for k, v, how in defs:
            if k == gn and v is not None and src(uncopy(v)).startswith("checkpoint.") and src(uncopy(v)).endswith(".jac"):
                newG = True    # a private copy of the checkpoint's gradient is the checkpoint's gradient
                continue
            if k == xn:
                newF = newG = False
            elif k == fn_:
                if isinstance(v, ast.IfExp) and coherent_src(v, "f"):
                    newF = True
                    continue
                if isinstance(v, ast.Call):
                    d = dotted(v.func) or ""
                    if d in (f"{sf}.fun",) and v.args and src(v.args[0]) == xn:
                        newF = True
                        continue
                    if d == f"{sf}.fun_and_grad" and v.args and src(v.args[0]) == xn:
                        newF = True
                        continue
                    if isinstance(v.func, ast.Name) and v.func.id == "update_fun_def":
                        continue   # declared redefinition of the objective: preserved
                if v is not None and src(v).startswith("checkpoint.") and src(v).endswith(".fun"):
                    newF = True
                    continue
                if how == "aug" and isinstance(s, ast.AugAssign) and isinstance(s.op, ast.Mult) and is_factor(s.value):
                    continue
                if v is not None and scaled_self(v, fn_):
                    continue
                newF = False
            elif k == gn:
                if isinstance(v, ast.IfExp) and coherent_src(v, "g"):
                    newG = True
                    continue
                if isinstance(v, ast.Call):
                    d = dotted(v.func) or ""
                    if d in (f"{sf}.grad", f"{sf}.fun_and_grad") and v.args and src(v.args[0]) == xn:
                        newG = True
                        continue
                    if isinstance(v.func, ast.Name) and v.func.id == "update_fun_def":
                        continue
                if v is not None and src(v).startswith("checkpoint.") and src(v).endswith(".jac"):
                    newG = True
                    continue
                if v is not None and scaled_self(v, gn):
                    continue
                if how == "aug" and isinstance(s, ast.AugAssign) and isinstance(s.op, ast.Mult) and is_factor(s.value):
                    continue
                newG = False
        for t in mut_at.get(n, ()):  # in-place writes
            if t == xn and not any(k == xn for k, _, _ in defs):
                newF = newG = False
            if t == gn and not any(k == gn for k, _, _ in defs):
                newG = False
        return (newF, newG)

    def join(a, b):
        return (a[0] and b[0], a[1] and b[1])

    IN, OUT = forward(cfg, (False, False), transfer, join, follow_exc=False)
    obs: List[Ob] = []
    for c in mm.results:
        n = cfg.node_of(c)
        FX, GX = IN.get(n, (False, False))
        kx, kf, kj = kw(c, "x"), kw(c, "fun"), kw(c, "jac")
        xs = src(uncopy(kx)) if kx is not None else None
        bad = []
        if xs != xn:
            bad.append(f"x={short(kx)} is not the iterate {xn}")
        if kf is None or src(kf) != fn_:
            bad.append(f"fun={short(kf)} is not {fn_}")
        elif not FX:
            bad.append(f"{fn_} is not known to be the wrapper's value at {xn} here (x or fun redefined since the evaluation)")
        if kj is not None and src(kj) == gn:
            if not GX:
                bad.append(f"{gn} is not known to be the wrapper's gradient at {xn} here")
        else:
            if isinstance(kj, ast.Name):
                # a local that only holds the placeholder / the checkpoint's gradient on the early-return paths
                jdefs = [src(v2) for _, v2, _ in mm.rd.value_exprs(n, kj.id) if v2 is not None]
                if jdefs and all(j.startswith("checkpoint.") or j.startswith(mm.G + "[") for j in jdefs):
                    kj = ast.parse("checkpoint.jac" if all(j.startswith("checkpoint.") for j in jdefs) else jdefs[0], mode="eval").body
            # carve-out: no gradient has been computed on any path to this construction
            evals = [m for m in cfg.nodes if any((dotted(cc.func) or "") in (f"{sf}.grad", f"{sf}.fun_and_grad")
                                                  for cc in node_calls(m))]
            reach = [m for m in evals if n in cfg.reachable(m, follow_exc=False)]
            jsrc = src(kj) if kj is not None else "<none>"
            if reach and not jsrc.startswith("checkpoint."):
                bad.append(f"jac={jsrc} although a gradient evaluation (line {reach[0].line}) precedes this construction")
            if not reach:
                # before any evaluation the only gradient that belongs to x is the checkpoint's: on the paths WITH a checkpoint
                # the reported jac must be exactly that one (a placeholder is acceptable only without a checkpoint)
                from .consts import _is_ckpt_atom

                def restart_edge(a, b, lab):
                    if a.kind == "test" and lab in (True, False):
                        at_ = _is_ckpt_atom(a.ast)
                        if at_ is not None and (at_ == lab):
                            return False          # `checkpoint is None` holds on this edge: not a restart path
                    return True
                on_restart = n in cfg.reachable(cfg.entry, follow_exc=False, edge_ok=restart_edge)
                if on_restart:
                    kj0 = kw(c, "jac")
                    cands = [kj0]
                    if isinstance(kj0, ast.Name):
                        cands = [v2 for d2, v2, _ in mm.rd.value_exprs(n, kj0.id)
                                 if v2 is not None and (d2 is cfg.entry or d2 in cfg.reachable(cfg.entry, follow_exc=False, edge_ok=restart_edge))
                                 and n in cfg.reachable(d2, follow_exc=False, edge_ok=restart_edge)]
                    wrong = [src(v2) for v2 in cands if v2 is None or src(v2) != "checkpoint.jac"]
                    if wrong:
                        bad.append(f"on a restart this result reports jac={wrong[0]}, not the checkpoint's gradient (the only gradient known at {xn} there)")
        obs.append(ob("COH", "reported (x, fun, jac) are coherent", mm.f, c, not bad,
                      "; ".join(bad) if bad else f"fun coherent={FX}, jac coherent={GX} at the construction; x={short(kx)}",
                      construct=f"OptimizeResult(x={short(kx, 20)}, fun={short(kf, 20)}, jac={short(kj, 20)}) line-class "
                                f"{'loop' if mm.in_loop(c) else 'final' if any(c is y for y in ast.walk(mm.final_return)) else 'early'}"))
    return obs


@rule("CNT", min_instances=6)
def rule_cnt(ctx: Ctx) -> List[Ob]:
    """counters are reported from, and restored into, the wrapper only: every nfev=/njev= of a
    result reads sf.nfev / sf.ngev, the only writes of these counters outside the wrapper are the
    two restores from the checkpoint (nfev<-nfev, ngev<-njev), and they precede every use of the
    wrapper's accessors"""
    mm = mainmodel(ctx)
    cfg = mm.cfg
    obs: List[Ob] = []
    sf = mm.sf
    for c in mm.results:
        for k, w in (("nfev", f"{sf}.nfev"), ("njev", f"{sf}.ngev")):
            v = kw(c, k)
            ok = v is not None and src(v) == w
            obs.append(ob("CNT", f"result.{k} reads the wrapper's counter", mm.f, v if v is not None else c, ok,
                          f"{k}={short(v)} (expected {w})", False,
                          construct=f"{k}={short(v)} @{'loop' if mm.in_loop(c) else 'return'}:{c.lineno - mm.f.node.lineno > 0 and ''}{_cls(mm, c)}"))
    acc = [n for n in cfg.nodes if any((dotted(c.func) or "") in (f"{sf}.fun", f"{sf}.grad", f"{sf}.fun_and_grad")
                                       for c in node_calls(n))]
    creat = [n for n in cfg.nodes if any(k == sf for k, _, _ in node_defs(n))]
    # one creation per path: several creation sites are fine when none can be reached from another (exclusive branches)
    need(len(creat) >= 1 and not any(b in cfg.reachable(a, follow_exc=False) for a in creat for b in creat),
         "wrapper variable is bound more than once on a path")
    for q, f in ctx.repo.funcs.items():
        if f.cls == "ScalarFunction":
            continue
        for s in walk_no_nested(f.node):
            tg = []
            if isinstance(s, ast.Assign):
                tg = [(t, s.value) for t in s.targets]
            elif isinstance(s, ast.AugAssign):
                tg = [(s.target, None)]
            for t, v in tg:
                d = dotted(t)
                if d and d.split(".")[-1] in ("nfev", "ngev") and len(d.split(".")) == 2 and q == mm.f.qual and d.split(".")[0] == sf:
                    want = {"nfev": "nfev", "ngev": "njev"}[d.split(".")[-1]]
                    n = cfg.node_of(s)
                    ok = v is not None and src(v) == f"checkpoint.{want}"
                    late = [a for a in acc if n in cfg.reachable(a, follow_exc=False)]
                    early = not any(n in cfg.reachable(cr_, follow_exc=False) for cr_ in creat)
                    ok2 = ok and not late and not early
                    obs.append(ob("CNT", f"restore of {d} from the checkpoint precedes every evaluation", f, s, ok2,
                                  f"{d} <- {short(v)}" + ("" if ok else f": expected checkpoint.{want}") +
                                  (f"; an accessor call at line {late[0].line} can run before it" if late else "") +
                                  ("; the wrapper may not exist yet" if early else "")))
                elif d and d.split(".")[-1] in ("nfev", "ngev") and q != mm.f.qual:
                    obs.append(ob("CNT", "no writer of the counters outside the wrapper", f, s, False,
                                  f"{d} written in {q}"))
    return obs


def _guard_of(fn_node, stmt):
    """innermost if-condition under which stmt runs (None = unconditional)"""
    best = None
    for p in ast.walk(fn_node):
        if isinstance(p, ast.If):
            if any(stmt is x for b in p.body for x in ast.walk(b)):
                best = p.test
            elif any(stmt is x for b in p.orelse for x in ast.walk(b)):
                best = ast.UnaryOp(op=ast.Not(), operand=p.test)
    return best


def _cls(mm, c) -> str:
    if mm.in_loop(c):
        return "callback-state"
    if any(c is y for y in ast.walk(mm.final_return)):
        return "final"
    return f"early{[r for r in mm.results].index(c)}"


@rule("FIELDS", min_instances=9)
def rule_fields(ctx: Ctx) -> List[Ob]:
    """what a result carries is what a restart reads: every attribute of the checkpoint read by
    the solver is a keyword of every result construction, the solver state {x, fun, jac, nfev,
    njev, nit, sk, yk} is read back, and each read lands in the live variable it came from"""
    mm = mainmodel(ctx)
    obs: List[Ob] = []
    init = ctx.repo.func("main.initialize_X_and_G")
    reads: Dict[str, List[Tuple[object, ast.AST]]] = {}

    def ck_key(n: ast.AST) -> Optional[str]:
        """checkpoint.get("k"[, default]) / checkpoint["k"] / getattr(checkpoint, "k"[, default]) -> k"""
        if isinstance(n, ast.Call) and dotted(n.func) == "checkpoint.get" and n.args and isinstance(n.args[0], ast.Constant):
            return str(n.args[0].value)
        if isinstance(n, ast.Call) and dotted(n.func) == "getattr" and len(n.args) >= 2 and src(n.args[0]) == "checkpoint" \
                and isinstance(n.args[1], ast.Constant):
            return str(n.args[1].value)
        if isinstance(n, ast.Subscript) and src(n.value) == "checkpoint" and isinstance(n.slice, ast.Constant) and isinstance(n.ctx, ast.Load):
            return str(n.slice.value)
        return None

    def is_ck_read(e: ast.AST, fld: str) -> bool:
        e = uncopy(e)   # a private copy of the field (np.copy(checkpoint.jac)) restores the same value
        return src(e) == f"checkpoint.{fld}" or ck_key(e) == fld
    for f in (mm.f, init):
        for n in walk_no_nested(f.node):
            if ck_key(n) is not None:
                reads.setdefault(ck_key(n), []).append((f, n))
            if isinstance(n, ast.Attribute) and isinstance(n.ctx, ast.Load):
                d = dotted(n)
                if d and d.startswith("checkpoint.") and d != "checkpoint.get" and not any(
                        isinstance(p, ast.Attribute) and p.value is n for p in walk_no_nested(f.node)):
                    reads.setdefault(d[len("checkpoint."):], []).append((f, n))
    state = {"x", "fun", "jac", "nfev", "njev", "nit", "hess_inv.sk", "hess_inv.yk"}
    for fld in sorted(state):
        ok = fld in reads
        obs.append(ob("FIELDS", f"restart reads checkpoint.{fld}", mm.f, reads[fld][0][1] if ok else mm.f.node, ok,
                      f"{len(reads.get(fld, []))} read(s)" if ok else "this part of the solver state is not restored",
                      construct=f"checkpoint.{fld}"))
    for c in mm.results:
        kws = {k.arg for k in c.keywords}
        miss = sorted({r.split(".")[0] for r in reads} - kws - {"hess_inv.shape"})
        obs.append(ob("FIELDS", "every field a restart reads is written by this result", mm.f, c, not miss,
                      f"missing {miss}" if miss else f"keywords {sorted(kws)}", False,
                      construct=f"OptimizeResult@{_cls(mm, c)} keywords"))
    # landing sites in main
    land = {"fun": src(kw(mm.result_of_return(mm.final_return), "fun")),
            "jac": src(kw(mm.result_of_return(mm.final_return), "jac")),
            "nit": f"{mm.istate}.nit", "nfev": f"{mm.sf}.nfev", "njev": f"{mm.sf}.ngev"}
    # the factor fun / jac / yk were scaled with travels with them: written by a result <=> read back by a restart
    writes_fac = [c for c in mm.results if any(k.arg == "scaling_factor" for k in c.keywords)]
    if writes_fac or "scaling_factor" in reads:
        land["scaling_factor"] = f"{mm.sf}.scaling_factor"
        obs.append(ob("FIELDS", "the scaling factor is carried by every result and read back by a restart", mm.f,
                      (writes_fac[0] if writes_fac else reads["scaling_factor"][0][1]),
                      len(writes_fac) == len(mm.results) and "scaling_factor" in reads,
                      f"{len(writes_fac)} of {len(mm.results)} results carry it; read back: {'scaling_factor' in reads}",
                      construct="scaling_factor: results <-> restart"))
    for fld, tgt in land.items():
        hits = []
        for s in walk_no_nested(mm.f.node):
            if isinstance(s, (ast.Assign, ast.AnnAssign)) and getattr(s, "value", None) is not None:
                v2 = s.value
                branches = [v2.body, v2.orelse] if isinstance(v2, ast.IfExp) else [v2]
                if any(is_ck_read(b2, fld) for b2 in branches):
                    hits += [src(t) for t in (s.targets if isinstance(s, ast.Assign) else [s.target])]
        ok = tgt in hits
        gwhy = ""
        if ok:
            # the restore happens whenever a checkpoint is given (not only under some further condition)
            from ..core import bool_equiv
            for s2 in walk_no_nested(mm.f.node):
                if isinstance(s2, (ast.Assign, ast.AnnAssign)) and getattr(s2, "value", None) is not None and \
                        tgt in [src(t) for t in (s2.targets if isinstance(s2, ast.Assign) else [s2.target])]:
                    v2 = s2.value
                    if isinstance(v2, ast.IfExp) and is_ck_read(v2.orelse, fld):
                        g2 = ast.UnaryOp(op=ast.Not(), operand=v2.test)
                    elif isinstance(v2, ast.IfExp) and is_ck_read(v2.body, fld):
                        g2 = v2.test
                    elif is_ck_read(v2, fld):
                        g2 = _guard_of(mm.f.node, s2)
                    else:
                        continue
                    if g2 is None or not bool_equiv(g2, "checkpoint is not None"):
                        ok = False
                        gwhy = f"; the restore runs under `{short(g2) if g2 is not None else 'no condition'}`, not exactly when a checkpoint is given"
        obs.append(ob("FIELDS", f"checkpoint.{fld} is restored into {tgt}", mm.f, mm.f.node, ok,
                      f"assigned to {hits}" + ("" if tgt in hits else f" (expected {tgt} among them)") + gwhy,
                      construct=f"{tgt} <- checkpoint.{fld}"))
    return obs


@rule("RESTARTX", min_instances=1)
def rule_restartx(ctx: Ctx) -> List[Ob]:
    """a restart takes fun, jac and the history from the checkpoint and the point from the caller: the two belong together
    only if the start point is *exactly* checkpoint.x -- the package must test that with an exact comparison that raises on
    any difference (np.testing.assert_equal / assert_array_equal, np.array_equal, ==), or take the point from the
    checkpoint; a comparison up to a tolerance lets the run continue with values of another point"""
    EXACT = ("assert_equal", "assert_array_equal", "array_equal")
    TOL = ("assert_allclose", "allclose", "isclose", "assert_array_almost_equal", "assert_almost_equal", "assert_approx_equal",
           "assert_array_almost_equal_nulp", "assert_array_max_ulp", "array_equiv")
    obs: List[Ob] = []
    found = 0
    for q in ("main.initialize_X_and_G", "main.minimize_lbfgsb"):
        f = ctx.repo.func(q)
        ck = "checkpoint"
        if ck not in f.params:
            continue
        for c in walk_no_nested(f.node):
            if isinstance(c, ast.Call):
                args = list(c.args) + [k.value for k in c.keywords]
                if len(c.args) >= 2 and any(src(a) == f"{ck}.x" for a in c.args[:2]):
                    name = (dotted(c.func) or "").split(".")[-1]
                    if name in EXACT or name in TOL:
                        found += 1
                        ok = name in EXACT and not any(k.arg in ("rtol", "atol", "decimal", "significant", "nulp", "maxulp", "equal_nan") for k in c.keywords
                                                        if not (k.arg == "equal_nan" and src(k.value) == "False"))
                        if ok and name == "array_equal":
                            # the outcome must decide a raise
                            cfg = ctx.cfg(f)
                            try:
                                n = cfg.node_of(c)
                                ok = n.kind == "test" or any(isinstance(x, ast.Raise) for x in ast.walk(n.ast))
                            except Exception:
                                ok = False
                        obs.append(ob("RESTARTX", "the start point of a restart is compared exactly with checkpoint.x", f, c, ok,
                                      f"{short(c, 80)}" + ("" if ok else ": equality up to a tolerance -- the run goes on from a point whose fun / jac / history "
                                                           "are those of checkpoint.x"), construct=f"{name}(x0, checkpoint.x)"))
            if isinstance(c, ast.Compare) and len(c.ops) == 1 and isinstance(c.ops[0], (ast.Eq, ast.NotEq)) and \
                    any(src(a) == f"{ck}.x" for a in (c.left, c.comparators[0])):
                found += 1
                obs.append(ob("RESTARTX", "the start point of a restart is compared exactly with checkpoint.x", f, c, True,
                              f"{short(c, 80)}", construct="x0 == checkpoint.x"))
        # or the point is the checkpoint's
        for s in walk_no_nested(f.node):
            if isinstance(s, ast.Assign) and len(s.targets) == 1 and isinstance(s.targets[0], ast.Name) and s.targets[0].id in ("x", "x0") and \
                    any(src(v) == f"{ck}.x" for v in ast.walk(s.value)) and not any(isinstance(v, ast.BinOp) for v in ast.walk(s.value)):
                found += 1
                obs.append(ob("RESTARTX", "the start point of a restart is compared exactly with checkpoint.x", f, s, True,
                              f"{short(s, 80)}: the point is taken from the checkpoint", construct=short(s, 60)))
    if not found:
        f = ctx.repo.func("main.initialize_X_and_G")
        obs.append(ob("RESTARTX", "the start point of a restart is compared exactly with checkpoint.x", f, f.node, False,
                      "no comparison of the start point with checkpoint.x was found on the restart path",
                      construct="x0 vs checkpoint.x"))
    return obs
