"""DOWNHILL, LSBUD -- the line search returns None or a strictly downhill step, within budget (C03, C11)."""
from __future__ import annotations

import ast
import glob
import os
from typing import FrozenSet, List, Optional, Set, Tuple

from ..cfg import CFG, Node
from ..core import AnalysisError, Func, Ob, dotted, kw, need, ob, short, src, uncopy, walk_no_nested
from ..flow import forward, node_calls, node_defs
from ..runner import Ctx, rule
from .exc import usertaint

LS = "linesearch.line_search"
SCALAR_COPIES = {"copy", "copy.copy", "float", "np.float64", "copy.deepcopy", "deepcopy"}


def _unwrap_scalar(e: ast.expr) -> ast.expr:
    while isinstance(e, ast.Call) and dotted(e.func) in SCALAR_COPIES and len(e.args) == 1:
        e = e.args[0]
    return e


def _step_of_point(e: ast.expr, x0: str, d: str) -> Optional[str]:
    """s if e is [projection of] x0 + s * d"""
    if isinstance(e, ast.Call) and (dotted(e.func) in ("np.clip", "clip2bounds") or
                                    (isinstance(e.func, ast.Attribute) and e.func.attr == "clip")):
        e = e.args[0] if dotted(e.func) in ("np.clip", "clip2bounds") else e.func.value
    if isinstance(e, ast.BinOp) and isinstance(e.op, ast.Add):
        for a, b in ((e.left, e.right), (e.right, e.left)):
            if src(a) == x0 and isinstance(b, ast.BinOp) and isinstance(b.op, ast.Mult):
                for p, q in ((b.left, b.right), (b.right, b.left)):
                    if src(q) == d and isinstance(p, ast.Name):
                        return p.id
    return None


class OrderFacts:
    """must-facts:  ('LE', b)  value of b <= start value;  ('LT', a)  value of a < start value;
    ('EVAL', a, s)  a is the objective value returned for step s;  ('DH', v)  v is None or
    f(x0 + v*d) < start value"""

    def __init__(self, ctx: Ctx, f: Func, start: str, x0: str, d: str):
        self.f, self.start, self.x0, self.d = f, start, x0, d
        self.cfg: CFG = ctx.cfg(f)
        from ..flow import Expander
        self.exp = Expander(ctx, f)
        self.tmp_points = {}
        init = frozenset([("LE", start)])
        self.IN, self.OUT = forward(self.cfg, init, self._transfer, lambda a, b: a & b, self._refine, follow_exc=False)

    # facts about an expression
    def le(self, e: ast.expr, st) -> bool:
        e = _unwrap_scalar(e)
        return isinstance(e, ast.Name) and (("LE", e.id) in st or ("LT", e.id) in st)

    def lt(self, e: ast.expr, st) -> bool:
        e = _unwrap_scalar(e)
        return isinstance(e, ast.Name) and ("LT", e.id) in st

    def dh_value(self, e: ast.expr, st) -> bool:
        """is assigning e to v enough for DH(v)?"""
        e = _unwrap_scalar(e)
        if isinstance(e, ast.Constant) and e.value is None:
            return True
        if isinstance(e, ast.Name):
            if ("DH", e.id) in st:
                return True
            return any(f[0] == "EVAL" and f[2] == e.id and ("LT", f[1]) in st for f in st)
        if isinstance(e, ast.IfExp):
            t, f_ = self._refine_expr(e.test, True, st), self._refine_expr(e.test, False, st)
            return (t is None or self.dh_value(e.body, t)) and (f_ is None or self.dh_value(e.orelse, f_))
        return False

    def _refine_expr(self, test: ast.expr, lab: bool, st):
        if isinstance(test, ast.UnaryOp) and isinstance(test.op, ast.Not):
            return self._refine_expr(test.operand, not lab, st)
        if isinstance(test, ast.Compare) and len(test.ops) == 1:
            a, b, op = _unwrap_scalar(test.left), _unwrap_scalar(test.comparators[0]), type(test.ops[0])
            # normalise to  small < big  being known
            # IEEE: only the TRUE edge of a strict comparison establishes an order; `not (a >= b)` also
            # holds when a is NaN, and a NaN trial value must never be recorded as "better"
            small = big = None
            if op is ast.Lt and lab:
                small, big = a, b
            elif op is ast.Gt and lab:
                small, big = b, a
            if small is not None and isinstance(small, ast.Name) and self.le(big, st):
                return st | {("LT", small.id)}
        return st

    def _refine(self, n: Node, lab, st):
        if n.kind == "test" and lab in (True, False):
            return self._refine_expr(n.ast, lab, st)
        return st

    # ---- collections of trials: ('PAIRS', L) every element of the list L is a pair (s, a) with a the objective value
    # returned for step s; ('DHPAIRS', B) every element of B is such a pair with a < start value
    def _collections(self, n: Node, st):
        from ..flow import node_exprs
        held = [f for f in st if f[0] in ("PAIRS", "DHPAIRS")]
        if not held:
            return st
        out = set(st)
        exprs = node_exprs(n)
        parents = {id(c): p for e in exprs for p in ast.walk(e) for c in ast.iter_child_nodes(p)}
        for f in held:
            L = f[1]
            for e in exprs:
                for x in ast.walk(e):
                    if not (isinstance(x, ast.Name) and x.id == L and isinstance(x.ctx, ast.Load)):
                        continue
                    p = parents.get(id(x))
                    ok = False
                    if p is None or (isinstance(p, ast.UnaryOp) and isinstance(p.op, ast.Not)):
                        ok = True                                   # truth test
                    elif isinstance(p, ast.comprehension) and p.iter is x:
                        ok = True                                   # read by a comprehension
                    elif isinstance(p, ast.Call) and isinstance(p.func, ast.Name) and p.func.id in ("min", "max", "len", "bool", "sorted") and p.args and p.args[0] is x:
                        ok = True
                    elif isinstance(p, ast.Subscript) and p.value is x and isinstance(p.ctx, ast.Load):
                        ok = True
                    elif isinstance(p, ast.Attribute) and p.attr == "append" and f[0] == "PAIRS":
                        c = parents.get(id(p))
                        if isinstance(c, ast.Call) and c.func is p and len(c.args) == 1 and isinstance(c.args[0], ast.Tuple) and len(c.args[0].elts) == 2 \
                                and all(isinstance(z, ast.Name) for z in c.args[0].elts):
                            s_, a_ = c.args[0].elts[0].id, c.args[0].elts[1].id
                            ok = ("EVAL", a_, s_) in st
                    if not ok:
                        out.discard(f)
        return frozenset(out)

    def _elements_below(self, v: ast.expr, st) -> bool:
        """[t for t in L if t[1] < X] with PAIRS(L) and X <= start"""
        if not (isinstance(v, ast.ListComp) and len(v.generators) == 1 and isinstance(v.elt, ast.Name)):
            return False
        g = v.generators[0]
        if not (isinstance(g.target, ast.Name) and g.target.id == v.elt.id and isinstance(g.iter, ast.Name) and ("PAIRS", g.iter.id) in st and len(g.ifs) >= 1):
            return False
        t = g.target.id
        for c in g.ifs:
            if isinstance(c, ast.Compare) and len(c.ops) == 1:
                a, b, op = c.left, c.comparators[0], type(c.ops[0])
                small, big = (a, b) if op is ast.Lt else (b, a) if op is ast.Gt else (None, None)
                if small is not None and isinstance(small, ast.Subscript) and src(small.value) == t and src(small.slice) == "1" and self.le(big, st):
                    return True
        return False

    def _transfer(self, n: Node, st):
        st = self._collections(n, st)
        defs = node_defs(n)
        if not defs:
            return st
        out = set(st)
        killed = {k for k, _, _ in defs}
        out = {f for f in out if not any(x in killed for x in f[1:])}
        for k, v, how in defs:
            if how != "bind" or v is None:
                continue
            if "." in k:
                continue
            # evaluation:  a[, g] = sf.fun_and_grad(point)   /  a = sf.fun(point) / phi(s)
            c = v if isinstance(v, ast.Call) else None
            s_ast = n.ast
            if c is not None and (dotted(c.func) or "").split(".")[-1] in ("fun_and_grad", "fun") and c.args:
                tg = s_ast.targets[0] if isinstance(s_ast, ast.Assign) else getattr(s_ast, "target", None)
                first = tg.elts[0] if isinstance(tg, ast.Tuple) else tg
                if isinstance(first, ast.Name) and first.id == k:
                    s = _step_of_point(c.args[0], self.x0, self.d)     # the step name as written, if the point is written out
                    if s is None:
                        pt = self.exp.expand(n, c.args[0], 6)    # temporaries / small helpers inlined
                        s = _step_of_point(pt, self.x0, self.d)
                    if s is not None and s not in killed:
                        out.add(("EVAL", k, s))
                continue
            if isinstance(v, ast.List) and not v.elts:
                out.add(("PAIRS", k))
                continue
            if self._elements_below(v, st):
                out.add(("DHPAIRS", k))
                continue
            pick = v.value if isinstance(v, ast.Subscript) and src(v.slice) == "0" else v
            if isinstance(pick, ast.Call) and isinstance(pick.func, ast.Name) and pick.func.id in ("min", "max") and len(pick.args) == 1 \
                    and isinstance(pick.args[0], ast.Name) and ("DHPAIRS", pick.args[0].id) in st:
                # any element of such a list is a pair whose step is strictly downhill: its first component
                tg = s_ast.targets[0] if isinstance(s_ast, ast.Assign) else getattr(s_ast, "target", None)
                first = isinstance(tg, ast.Tuple) and len(tg.elts) == 2 and isinstance(tg.elts[0], ast.Name) and tg.elts[0].id == k and pick is v
                if first or (pick is not v and isinstance(tg, ast.Name)):
                    out.add(("DH", k))
                continue
            vv = _unwrap_scalar(v)
            if isinstance(vv, ast.Name):
                if ("LT", vv.id) in st:
                    out.add(("LT", k))
                    out.add(("LE", k))
                elif ("LE", vv.id) in st:
                    out.add(("LE", k))
                for f in st:
                    if f[0] == "EVAL" and f[1] == vv.id and f[2] not in killed:
                        out.add(("EVAL", k, f[2]))
                    # a copy of the step: the value was also evaluated "at k"
                    if f[0] == "EVAL" and f[2] == vv.id and f[1] not in killed:
                        out.add(("EVAL", f[1], k))
            if self.dh_value(v, st):
                out.add(("DH", k))
        return frozenset(out)


@rule("DOWNHILL", min_instances=2)
def rule_downhill(ctx: Ctx) -> List[Ob]:
    """every value the line search can return is None, or a step s for which the objective value
    evaluated at x0 + s*d was compared strictly below a value known to be <= the start value; the
    facts are propagated as a must-dataflow to a fixpoint over the trial loop"""
    f = ctx.repo.func(LS)
    need(all(p in f.params for p in ("x0", "f0", "d")), "line_search: parameters x0, f0, d not found")
    of = OrderFacts(ctx, f, "f0", "x0", "d")
    obs: List[Ob] = []
    cfg = of.cfg
    nret = 0
    for n in cfg.nodes:
        if n.kind == "stmt" and isinstance(n.ast, ast.Return):
            nret += 1
            v = n.ast.value
            st = of.IN.get(n, frozenset())
            if v is None or (isinstance(v, ast.Constant) and v.value is None):
                obs.append(ob("DOWNHILL", "returned step is None or strictly downhill", f, n.ast, True, "returns None", False))
                continue
            ok = of.dh_value(v, st)
            facts = sorted(" ".join(map(str, x)) for x in st)
            obs.append(ob("DOWNHILL", "returned step is None or strictly downhill", f, n.ast, ok,
                          (f"`{short(v)}` carries the fact downhill(.) on every path" if ok else
                           f"`{short(v)}` is not known to be None-or-strictly-below-the-start on every path: a search ending on "
                           f"the iteration cap / a safeguard warning can return a trial worse than the start") +
                          f" [facts at the return: {facts}]"))
    need(nret >= 1, "line_search: no return statement")
    # the start value must survive until the comparison seeds: definition sites that kill it
    kills = [n for n in cfg.nodes for k, _, _ in node_defs(n) if k == "f0"]
    seeds = [n for n in cfg.nodes for k, v, how in node_defs(n)
             if v is not None and isinstance(_unwrap_scalar(v), ast.Name) and _unwrap_scalar(v).id == "f0" and how == "bind"]
    late = [s for s in seeds if any(s in cfg.reachable(k, follow_exc=False) for k in kills)]
    obs.append(ob("DOWNHILL", "the start value is read before anything overwrites it", f, (late or seeds or [cfg.entry])[0].ast or f.node,
                  not late and bool(seeds),
                  f"{len(seeds)} name(s) seeded from f0; f0 redefined at {len(kills)} site(s)" +
                  ("" if not late else f"; `{short(late[0].ast)}` can read an overwritten f0"),
                  construct="seeds of the running minimum from the start value f0"))
    return obs


def _scipy_dcsrch_source() -> Optional[str]:
    for pat in ("/venv/lib/python*/site-packages/scipy/optimize/_dcsrch.py",
                "/usr/lib/python3*/site-packages/scipy/optimize/_dcsrch.py"):
        for p in sorted(glob.glob(pat)):
            return p
    return None


@rule("LSBUD", min_instances=4)
def rule_lsbud(ctx: Ctx) -> List[Ob]:
    """at most max_iter evaluations per line search: the trial loop has one evaluation site, a
    counter starting at 0, guard `counter < max_iter`, and every cycle passes `counter += 1`; the
    closures handed to SciPy's DCSRCH are never called by the one method used (_iterate), checked
    on SciPy's installed source"""
    f = ctx.repo.func(LS)
    cfg = ctx.cfg(f)
    ut = usertaint(ctx)
    obs: List[Ob] = []
    loops = [s for s in walk_no_nested(f.node) if isinstance(s, ast.While)]
    # the trial loop is the outermost one; a loop nested in it is part of its body (and must respect the same budget)
    inner = {id(x) for lp_ in loops for b_ in lp_.body + lp_.orelse for x in ast.walk(b_) if isinstance(x, ast.While)}
    loops = [lp_ for lp_ in loops if id(lp_) not in inner]
    need(len(loops) == 1, "line_search: expected one trial loop")
    lp = loops[0]
    # Budget argument, on paths:  (1) the counter is 0 before the loop and only ever incremented by one;  (2) an
    # evaluation is never reached without the test `counter < max_iter` having succeeded since the last change of the
    # counter;  (3) between two evaluations the counter is incremented.  Then the k-th evaluation sees
    # k - 1 <= counter <= max_iter - 1.
    sites_ = [c for c, why in ut.sites.get(f.qual, []) if any(c is x for x in ast.walk(lp)) and (dotted(c.func) or "").startswith("sf.")]
    ev_nodes = [cfg.node_of(c) for c in sites_]
    guards = []       # (test node, label on which counter < max_iter holds, counter name)
    for n in cfg.nodes:
        t = n.ast
        if n.kind == "test" and isinstance(t, ast.Compare) and len(t.ops) == 1:
            if isinstance(t.ops[0], ast.Lt) and src(t.comparators[0]) == "max_iter" and isinstance(t.left, ast.Name):
                guards.append((n, True, t.left.id))
            elif isinstance(t.ops[0], ast.Gt) and src(t.left) == "max_iter" and isinstance(t.comparators[0], ast.Name):
                guards.append((n, True, t.comparators[0].id))
            elif isinstance(t.ops[0], ast.GtE) and src(t.comparators[0]) == "max_iter" and isinstance(t.left, ast.Name):
                guards.append((n, False, t.left.id))
            elif isinstance(t.ops[0], ast.LtE) and src(t.left) == "max_iter" and isinstance(t.comparators[0], ast.Name):
                guards.append((n, False, t.comparators[0].id))
    ctrs = {g[2] for g in guards}
    ctr = sorted(ctrs)[0] if len(ctrs) == 1 else None
    obs.append(ob("LSBUD", "trial loop guard is `counter < max_iter`", f, guards[0][0].ast if guards else lp.test, ctr is not None,
                  f"guard test(s) {[short(g[0].ast) for g in guards]}" if guards else f"no test of a counter against max_iter (loop test `{short(lp.test)}`)"))
    if ctr is not None:
        defs = [(n, v, how) for n in cfg.nodes for k, v, how in node_defs(n) if k == ctr]
        inits = [(n, v) for n, v, how in defs if not cfg.in_loop(n, lp)]
        incs = [n for n, v, how in defs if cfg.in_loop(n, lp)]
        ok0 = len(inits) >= 1 and all(isinstance(v, ast.Constant) and v.value == 0 and not isinstance(v.value, bool) for _, v in inits)
        obs.append(ob("LSBUD", "counter starts at 0", f, inits[0][0].ast if inits else f.node, ok0,
                      f"initial value {[short(v) for _, v in inits]}", False))

        def is_inc(n):
            a = n.ast
            if isinstance(a, ast.AugAssign) and isinstance(a.op, ast.Add) and isinstance(a.value, ast.Constant) and a.value.value == 1:
                return True
            return isinstance(a, ast.Assign) and isinstance(a.value, ast.BinOp) and isinstance(a.value.op, ast.Add) and \
                {src(a.value.left), src(a.value.right)} == {ctr, "1"}
        okinc = bool(incs) and all(is_inc(n) for n in incs)
        gset = {(g[0], g[1]) for g in guards}

        def no_guard_edge(a, b, lab):
            return not ((a, lab) in gset)
        # (2) from the function entry and from every change of the counter, an evaluation is not reachable without a guard success
        unguarded = []
        for start in [cfg.entry] + [n for n, _, _ in defs]:
            r_ = cfg.reachable(start, follow_exc=False, edge_ok=no_guard_edge)
            r_ = r_ - {start} if start in ev_nodes else r_
            for e_ in ev_nodes:
                if e_ in r_ and e_ is not start:
                    unguarded.append((start, e_))
        # (3) from an evaluation, the next evaluation is not reachable without an increment
        uncounted = []
        for e_ in ev_nodes:
            succ_ = cfg.reachable(e_, follow_exc=False, avoid=lambda m: m in incs)
            if any(x in succ_ for x in ev_nodes):
                uncounted.append(e_)
        okpath = okinc and not unguarded and not uncounted and bool(ev_nodes)
        obs.append(ob("LSBUD", "every cycle of the trial loop passes `counter += 1`", f, incs[0].ast if incs else lp, okpath,
                      "between two evaluations the counter is incremented by one, and no evaluation is reached without `counter < max_iter` "
                      "having held since the counter last changed" if okpath else
                      ("the counter is advanced by something else than +1" if not okinc else
                       f"an evaluation at line {unguarded[0][1].line} is reachable from line {unguarded[0][0].line} without the budget test" if unguarded else
                       f"two evaluations can follow each other without counting (line {uncounted[0].line})" if uncounted else "no evaluation site")))
    # evaluation sites in the loop
    sites = [c for c, why in ut.sites.get(f.qual, []) if any(c is x for x in ast.walk(lp))]
    evals = [c for c in sites if (dotted(c.func) or "").startswith("sf.")]
    other = [c for c in sites if c not in evals and not (dotted(c.func) or "").endswith("_iterate")
             and not (dotted(c.func) or "").endswith("minpack2.dcsrch")]
    ok = len(evals) == 1 and not other
    obs.append(ob("LSBUD", "one objective evaluation per trial", f, (evals[1:] or other or evals or [lp])[0], ok,
                  f"user-reaching calls in the loop: {[short(c.func) for c in sites]}",
                  construct="evaluation sites in the trial loop"))
    # nothing is evaluated before or after the trial loop: the cap bounds the evaluations of the whole search
    outside = [c for c, why in ut.sites.get(f.qual, []) if not any(c is x for x in ast.walk(lp))
               and not (dotted(c.func) or "").endswith("_iterate") and not (dotted(c.func) or "").endswith("minpack2.dcsrch")
               and not (dotted(c.func) or "").endswith("DCSRCH")]   # the constructor only stores phi / derphi: checked below on SciPy's source
    obs.append(ob("LSBUD", "no evaluation outside the counted trial loop", f, outside[0] if outside else f.node, not outside,
                  "all user-reaching calls of line_search are inside the loop" if not outside else
                  f"user-reaching call(s) outside the loop, not counted against max_iter: {[short(c) for c in outside][:3]}",
                  construct="evaluation sites outside the trial loop"))
    # only _iterate is called on the DCSRCH object; SciPy's _iterate calls neither phi nor derphi
    meths = sorted({c.func.attr for c in walk_no_nested(f.node) if isinstance(c, ast.Call) and isinstance(c.func, ast.Attribute)
                    and isinstance(c.func.value, ast.Name) and c.func.value.id == "dcsrch"})
    direct_call = any(isinstance(c, ast.Call) and isinstance(c.func, ast.Name) and c.func.id == "dcsrch" for c in walk_no_nested(f.node))
    okm = meths == ["_iterate"] and not direct_call
    obs.append(ob("LSBUD", "only DCSRCH._iterate is used (never __call__, which evaluates phi itself)", f, f.node, okm,
                  f"methods called on the DCSRCH object: {meths}; called directly: {direct_call}",
                  construct="uses of the DCSRCH object"))
    p = _scipy_dcsrch_source()
    need(p is not None, "LSBUD: SciPy's _dcsrch.py not found under /venv -- the cross-library clause cannot be checked")
    tree = ast.parse(open(p).read())
    it = [n for n in ast.walk(tree) if isinstance(n, ast.FunctionDef) and n.name == "_iterate"]
    need(len(it) == 1, "LSBUD: DCSRCH._iterate not found in SciPy's source")
    calls = sorted({dotted(c.func) or "?" for c in ast.walk(it[0]) if isinstance(c, ast.Call)})
    bad = [c for c in calls if c in ("self.phi", "self.derphi")]
    obs.append(Ob("LSBUD", "SciPy's DCSRCH._iterate does not call phi / derphi", os.path.relpath(p, "/"), it[0].lineno,
                  "scipy.optimize._dcsrch.DCSRCH._iterate", "DCSRCH._iterate body", not bad,
                  f"callees of _iterate in the installed SciPy source: {calls}"))
    ini = [n for n in ast.walk(tree) if isinstance(n, ast.FunctionDef) and n.name == "__init__"]
    need(len(ini) >= 1, "LSBUD: DCSRCH.__init__ not found in SciPy's source")
    icalls = sorted({dotted(c.func) or "?" for c in ast.walk(ini[0]) if isinstance(c, ast.Call)})
    ibad = [c for c in icalls if c in ("self.phi", "self.derphi", "phi", "derphi")]
    obs.append(Ob("LSBUD", "SciPy's DCSRCH constructor does not call phi / derphi", os.path.relpath(p, "/"), ini[0].lineno,
                  "scipy.optimize._dcsrch.DCSRCH.__init__", "DCSRCH.__init__ body", not ibad,
                  f"callees of __init__ in the installed SciPy source: {icalls}"))
    return obs


@rule("LSPROTO", min_instances=4)
def rule_lsproto(ctx: Ctx) -> List[Ob]:
    """reverse-communication protocol of DCSRCH as Algorithm 778 drives it: each call receives the step of the previous
    call and the objective value and slope evaluated at that very step; an 'FG' request is answered by exactly that
    evaluation, anything else ends the search"""
    f = ctx.repo.func(LS)
    cfg = ctx.cfg(f)
    rd = ctx.rd(f)
    obs: List[Ob] = []
    loops = [s for s in walk_no_nested(f.node) if isinstance(s, ast.While)]
    need(len(loops) == 1, "LSPROTO: trial loop not found")
    lp = loops[0]
    its = [c for c in ast.walk(lp) if isinstance(c, ast.Call) and isinstance(c.func, ast.Attribute) and c.func.attr == "_iterate"]
    need(len(its) == 1, "LSPROTO: DCSRCH._iterate call not found in the trial loop")
    it = its[0]
    n_it = cfg.node_of(it)
    need(len(it.args) == 4 and all(isinstance(a, ast.Name) for a in it.args), "LSPROTO: _iterate is not called with four names (stp, f, g, task)")
    a_stp, a_f, a_g, a_task = [a.id for a in it.args]
    # what the call returns
    st = n_it.ast
    tg = st.targets[0] if isinstance(st, ast.Assign) and isinstance(st.targets[0], ast.Tuple) else None
    need(tg is not None and len(tg.elts) == 4 and isinstance(tg.elts[0], ast.Name) and isinstance(tg.elts[3], ast.Name),
         "LSPROTO: the result of _iterate is not unpacked into (stp, f, g, task)")
    r_stp, r_task = tg.elts[0].id, tg.elts[3].id

    def copies(nm):
        out, grew = {nm}, True
        while grew:
            grew = False
            for s_ in ast.walk(lp):
                if isinstance(s_, ast.Assign) and len(s_.targets) == 1 and isinstance(s_.targets[0], ast.Name) and isinstance(s_.value, ast.Name) \
                        and s_.value.id in out and s_.targets[0].id not in out:
                    out.add(s_.targets[0].id)
                    grew = True
        return out
    RSTP, RTASK = copies(r_stp), copies(r_task)
    ok = a_task in RTASK
    obs.append(ob("LSPROTO", "the task string returned by dcsrch is the one handed back to it", f, it, ok,
                  f"task in: {a_task}, task out: {r_task}", construct="_iterate(.., task) -> (.., task)"))

    def loop_defs(name, at=None, depth=0):
        out = []
        for d, v, how in rd.value_exprs(at or n_it, name):
            if d is cfg.entry or not cfg.in_loop(d, lp):
                continue
            if isinstance(v, ast.Name) and how == "bind" and depth < 4 and v.id not in RSTP:
                # a copy (`trial_f = f_new`): the definitions of the copied name that reach the copy
                inner = loop_defs(v.id, d, depth + 1)
                if inner:
                    out += inner
                    continue
            out.append((d, v))
        return out
    # the step fed back is the step returned
    ds = loop_defs(a_stp)
    ok = len(ds) == 1 and ds[0][1] is not None and src(ds[0][1]) in RSTP
    obs.append(ob("LSPROTO", "the step handed to dcsrch is the step it returned at the previous call", f, ds[0][0].ast if ds else it, ok,
                  f"in the loop {a_stp} <- {[short(v) for _, v in ds]}" + ("" if ok else f": expected `{r_stp}` (otherwise dcsrch interpolates from a point "
                                                                                     "that was not evaluated)"), construct=f"{a_stp} = {r_stp}"))
    # f and g are evaluated at x0 + (returned step) * d
    df = loop_defs(a_f)
    okf = False
    whyf = f"in the loop {a_f} <- {[short(v, 50) for _, v in df]}"
    if len(df) == 1 and isinstance(df[0][1], ast.Call) and (dotted(df[0][1].func) or "").split(".")[-1] in ("fun_and_grad", "fun") and df[0][1].args:
        from ..flow import Expander
        pt = Expander(ctx, f).expand(df[0][0], df[0][1].args[0], 6)
        s_ = _step_of_point(df[0][1].args[0], "x0", "d") or _step_of_point(pt, "x0", "d")
        okf = s_ in RSTP
        whyf += f"; evaluated at step `{s_}`"
    obs.append(ob("LSPROTO", "the value handed to dcsrch is the objective at the step it asked for", f, df[0][0].ast if df else it, okf,
                  whyf + ("" if okf else f": expected an evaluation at x0 + {r_stp} * d"), construct=f"{a_f} = f(x0 + {r_stp} d)"))
    dg = loop_defs(a_g)
    # the slope: the gradient of that same evaluation, dotted with d (the last definition reaching the call)
    okg = False
    whyg = f"in the loop {a_g} <- {[short(v, 50) for _, v in dg]}"
    slope = [(d_, v) for d_, v in dg if v is not None and isinstance(v, ast.Call) and isinstance(v.func, ast.Attribute) and v.func.attr == "dot"
             and len(v.args) == 1 and src(v.args[0]) == "d"]
    if len(dg) == 1 and slope and df:
        inner = slope[0][1].func.value
        # the dotted vector must be the gradient delivered by the very evaluation that delivered the value
        gd = [d2 for d2, v2, _ in rd.value_exprs(slope[0][0], inner.id)] if isinstance(inner, ast.Name) else []
        okg = bool(gd) and all(d2 is df[0][0] for d2 in gd)
    obs.append(ob("LSPROTO", "the slope handed to dcsrch is grad(x0 + stp d) . d of the same evaluation", f, dg[0][0].ast if dg else it, okg,
                  whyg + ("" if okg else ": expected <gradient of that evaluation>.dot(d)"), construct=f"{a_g} = g(x0 + {r_stp} d).dot(d)"))
    # FG -> evaluate; anything else leaves the loop
    fg = [n for n in cfg.nodes if n.kind == "test" and cfg.in_loop(n, lp) and isinstance(n.ast, ast.Compare) and len(n.ast.ops) == 1
          and isinstance(n.ast.ops[0], (ast.Eq, ast.NotEq)) and "FG" in src(n.ast) and a_task in src(n.ast)]
    okp = False
    whyp = "no test of the task against b'FG' in the loop"
    if len(fg) == 1 and df:
        lab_fg = isinstance(fg[0].ast.ops[0], ast.Eq)
        ev = df[0][0]
        on_fg = ev in cfg.reachable(fg[0], follow_exc=False, edge_ok=lambda a, b, lab: not (a is fg[0] and lab is (not lab_fg)),
                                    avoid=lambda m: m.kind == "loophead")
        on_other = ev in cfg.reachable(fg[0], follow_exc=False, edge_ok=lambda a, b, lab: not (a is fg[0] and lab is lab_fg),
                                       avoid=lambda m: m.kind == "loophead")
        head = [n for n in cfg.nodes if n.kind == "loophead" and n.owner is lp]
        loops_again = bool(head) and head[0] in cfg.reachable(fg[0], follow_exc=False, edge_ok=lambda a, b, lab: not (a is fg[0] and lab is lab_fg))
        okp = on_fg and not on_other and not loops_again
        whyp = f"evaluation on the FG branch: {on_fg}; on the other branch: {on_other}; the other branch can iterate again: {loops_again}"
    obs.append(ob("LSPROTO", "an FG request is answered by one evaluation, any other task ends the search", f, fg[0].ast if fg else lp, okp, whyp,
                  construct="if task[:2] == b'FG': evaluate else: break"))
    return obs
