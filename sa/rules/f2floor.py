"""F2FLOOR -- the curvature along the projected path is floored at machine precision times its initial value."""
from __future__ import annotations

import ast
from typing import List, Optional

from ..core import Ob, dotted, need, ob, short, src, walk_no_nested
from ..runner import Ctx, rule

EPS_FORMS = ("np.finfo(float).eps", "np.finfo(np.float64).eps", "np.finfo(np.double).eps", "np.finfo('d').eps", "sys.float_info.epsilon",
             "np.finfo(float).resolution * 0 + np.finfo(float).eps", "np.spacing(1.0)", "np.spacing(1)")


def _is_machine_eps(e: Optional[ast.expr]) -> Optional[bool]:
    if e is None:
        return None
    s = src(e).replace(" ", "")
    if s in [f.replace(" ", "") for f in EPS_FORMS]:
        return True
    try:
        v = float(ast.literal_eval(e))
    except Exception:
        try:
            v = float(eval(compile(ast.Expression(e), "<c>", "eval"), {"__builtins__": {}}, {}))   # 2 ** -52, 2.2 * 10 ** -16: pure arithmetic
        except Exception:
            return None
    return 1.0e-16 <= v <= 2.3e-16


@rule("F2FLOOR", min_instances=1)
def rule_f2floor(ctx: Ctx) -> List[Ob]:
    """inside the breakpoint walk the second derivative of the model along the path is floored: f2 = max(f2, K * f2_org).  K is
    the machine precision of Algorithm 778 (epsmch): once every variable with a non-zero gradient component is fixed, f1 and f2
    are pure round-off and dt_min = -f1/f2 multiplies the round-off residue of p into the auxiliary vector c; with K = epsmch the
    product is negligible, with a much smaller K (1e-30) c is no longer W'(x_cp - x) (finding 19)."""
    f = ctx.repo.func("cauchy.get_cauchy_point")
    from ..flow import Expander
    ex = Expander(ctx, f)
    obs: List[Ob] = []
    stmts = [st for st in ast.walk(f.node) if isinstance(st, ast.stmt) and not isinstance(st, (ast.FunctionDef, ast.ClassDef))]

    def stmt_of(node):
        best = None
        for st in stmts:
            if any(x is node for x in ast.walk(st)):
                if best is None or any(x is st for x in ast.walk(best)):
                    best = st
        return best

    for c in ast.walk(f.node):
        if not isinstance(c, ast.Call):
            continue
        d = dotted(c.func) or ""
        if d.split(".")[-1] not in ("max", "maximum", "fmax") or len(c.args) != 2 or c.keywords:
            continue
        st = stmt_of(c)
        if st is None:
            continue
        exp = []
        for a in c.args:
            try:
                exp.append(ex.expand_at(st, a))
            except Exception:
                exp.append(a)
        hit = [e for e in exp if any(isinstance(x, ast.Name) and x.id == "f2_org" for x in ast.walk(e))]
        if len(hit) != 1:
            continue
        prod = hit[0]
        K = None
        if isinstance(prod, ast.BinOp) and isinstance(prod.op, ast.Mult):
            K = prod.left if src(prod.right) == "f2_org" else prod.right if src(prod.left) == "f2_org" else None
        if K is not None:
            try:
                K = ex.expand_at(st, K)
            except Exception:
                pass
        if isinstance(K, ast.Name):
            # a module-level constant
            defs = [s_ for s_ in f.module.tree.body if isinstance(s_, (ast.Assign, ast.AnnAssign)) and getattr(s_, "value", None) is not None
                    and src(s_.targets[0] if isinstance(s_, ast.Assign) else s_.target) == K.id]
            if len(defs) == 1:
                K = defs[0].value
        v = _is_machine_eps(K)
        obs.append(ob("F2FLOOR", "the floor of the path curvature is machine precision times its initial value", f, st, bool(v),
                      f"`{short(c, 70)}` with factor `{short(K, 40) if K is not None else '?'}`" +
                      ("" if v else ": not the machine precision of the reference (f2 = max(epsmch * f2_org, f2)); with a much smaller factor the "
                                    "auxiliary vector is round-off garbage when only zero-gradient variables remain free"),
                      construct="f_second = max(f_second, epsmch * f2_org)"))
    need(obs, "F2FLOOR: the floor f_second = max(f_second, K * f2_org) was not found in get_cauchy_point")
    return obs
