"""RTEXACT -- pairs inherited from a checkpoint are carried, not re-derived by floating-point arithmetic."""
from __future__ import annotations

import ast
from typing import List

from ..core import Ob, dotted, need, ob, short, src, walk_no_nested
from ..runner import Ctx, rule


@rule("RTEXACT", min_instances=1)
def rule_rtexact(ctx: Ctx) -> List[Ob]:
    """the results encode the memory as differences of the retained points (np.diff over X and G); a restart decodes a
    checkpoint by rebuilding points from the newest one and the pairs.  If the decoder computes the points by arithmetic
    (x - cumsum(s)), the pairs the restarted run reports for the inherited part of its memory are fl(fl(x - s) ... ) re-differenced:
    equal to the checkpoint's pairs only up to rounding, so they are no longer bit-exact differences of iterates the run visited.
    Decided on the decoder: the reconstruction of the retained points is a subtraction chain over checkpoint.x / checkpoint.jac."""
    f = ctx.repo.func("main.initialize_X_and_G")
    obs: List[Ob] = []
    for n in walk_no_nested(f.node):
        if isinstance(n, ast.BinOp) and isinstance(n.op, ast.Sub):
            l, r = src(n.left), src(n.right)
            for base, pairs in (("checkpoint.x", ".sk"), ("checkpoint.jac", ".yk")):
                if base in l and pairs in r and any(isinstance(c, ast.Call) and (dotted(c.func) or "").split(".")[-1] in ("cumsum", "add.accumulate", "accumulate")
                                                    for c in ast.walk(n.right)):
                    obs.append(ob("RTEXACT", "inherited pairs are carried over a restart, not re-derived by arithmetic", f, n, False,
                                  f"`{short(n, 80)}`: the retained points are rebuilt by subtraction and the results re-difference them "
                                  f"(np.diff): the round trip is the identity only up to rounding",
                                  construct=f"decoder of {base.split('.')[1]}: subtraction chain"))
    if not obs:
        # another decoder shape: the rule then has nothing to say (ORIENT types the decoder and fails closed on unknown shapes)
        obs.append(ob("RTEXACT", "inherited pairs are carried over a restart, not re-derived by arithmetic", f, f.node, True,
                      "no subtraction chain over checkpoint.x / checkpoint.jac in the decoder", construct="decoder: no subtraction chain"))
    return obs
