"""BOX, FDB, MODES -- every evaluated / reported / returned point is a projection onto the caller's box (C02, C11, C16)."""
from __future__ import annotations

import ast
from typing import Dict, FrozenSet, List, Optional, Set, Tuple

from ..cfg import CFG, Node
from ..core import AnalysisError, Func, Ob, bind_args, bool_equiv, dotted, kw, need, ob, short, src, uncopy, walk_no_nested
from ..flow import forward, node_calls, node_defs, node_exprs
from ..runner import Ctx, rule
from .mainmodel import mainmodel

COPYLIKE_F = {"np.copy", "np.array", "np.asarray", "np.atleast_1d", "np.ascontiguousarray", "copy.copy", "copy.deepcopy", "np.asfarray"}
COPYLIKE_M = {"copy", "astype"}
SF_ACCESSORS = ("fun", "grad", "fun_and_grad")


class BoxFlow:
    """must-analysis: set of names whose value is componentwise inside [lb, ub] by construction"""

    def __init__(self, ctx: Ctx, f: Func, lb: str, ub: str, inbox_params: Set[str], free_inbox: Set[str] = frozenset()):
        self.f, self.lb, self.ub = f, lb, ub
        self.cfg: CFG = ctx.cfg(f)
        from ..flow import Expander
        self.exp = Expander(ctx, f)
        self.free_inbox = set(free_inbox)
        from ..alias import engine
        fa = engine(ctx).fa[f.qual]
        self.mut_at: Dict[Node, Set[str]] = {}
        for m in fa.mutations:
            if m.how.startswith("attribute store"):
                continue
            self.mut_at.setdefault(m.node, set()).add(m.target)
        init = frozenset(inbox_params) | frozenset([lb, ub])
        self.IN, self.OUT = forward(self.cfg, init, self._transfer, lambda a, b: a & b, follow_exc=False)

    def projection(self, e: ast.expr, st) -> Optional[str]:
        """'ok' if e is a projection onto [lb, ub]; a reason string if it is a projection with wrong bounds; None otherwise"""
        if isinstance(e, ast.Call):
            d = dotted(e.func) or ""
            args = list(e.args)
            if d in ("np.clip", "clip2bounds", "numpy.clip") or d.endswith(".clip2bounds"):
                lo = args[1] if len(args) > 1 else kw(e, "a_min") or kw(e, "lb") or kw(e, "min")
                hi = args[2] if len(args) > 2 else kw(e, "a_max") or kw(e, "ub") or kw(e, "max")
                if lo is not None and hi is not None and src(lo) == self.lb and src(hi) == self.ub:
                    return "ok"
                return f"projection `{short(e, 60)}` does not use ({self.lb}, {self.ub}) in the (lower, upper) slots"
            if isinstance(e.func, ast.Attribute) and e.func.attr == "clip" and not d.startswith("np."):
                lo = args[0] if args else None
                hi = args[1] if len(args) > 1 else None
                if lo is not None and hi is not None and src(lo) == self.lb and src(hi) == self.ub:
                    return "ok"
                return f"projection `{short(e, 60)}` does not use ({self.lb}, {self.ub})"
            if d in ("np.minimum", "np.maximum") and len(args) == 2:
                outer_b = self.ub if d == "np.minimum" else self.lb
                inner_f = "np.maximum" if d == "np.minimum" else "np.minimum"
                inner_b = self.lb if d == "np.minimum" else self.ub
                for a, b in ((args[0], args[1]), (args[1], args[0])):
                    if src(b) == outer_b and isinstance(a, ast.Call) and dotted(a.func) == inner_f and len(a.args) == 2 \
                            and inner_b in (src(a.args[0]), src(a.args[1])):
                        return "ok"
        return None

    def inbox(self, e: Optional[ast.expr], st) -> bool:
        if e is None:
            return False
        if isinstance(e, ast.Name):
            return e.id in st or e.id in self.free_inbox
        if isinstance(e, ast.Call):
            if self.projection(e, st) == "ok":
                return True
            inl = self.exp._inline_call(e, 4)     # small package helper: look at what it returns
            if inl is not None and src(inl) != src(e):
                return self.inbox(inl, st)
            d = dotted(e.func) or ""
            if d in COPYLIKE_F and e.args:
                return self.inbox(e.args[0], st)
            if isinstance(e.func, ast.Attribute) and e.func.attr in COPYLIKE_M and not d.startswith(("np.", "copy.")):
                return self.inbox(e.func.value, st)
            if d == "np.where" and len(e.args) == 3:
                return self.inbox(e.args[1], st) and self.inbox(e.args[2], st)
            return False
        if isinstance(e, ast.IfExp):
            return self.inbox(e.body, st) and self.inbox(e.orelse, st)
        if isinstance(e, ast.Attribute) and e.attr == "T":
            return self.inbox(e.value, st)
        return False

    def why_not(self, e: ast.expr, n: Node, rd) -> str:
        if isinstance(e, ast.Name):
            vals = [(d, v, how) for d, v, how in rd.value_exprs(n, e.id)]
            parts = []
            for d, v, how in vals:
                if how == "param":
                    parts.append(f"`{e.id}` is a parameter not known to be in the box")
                elif how in ("aug", "store"):
                    parts.append(f"`{short(d.ast, 50)}` (line {d.line}) updates it in place with arithmetic")
                elif v is not None and not self.inbox(v, self.IN.get(d, frozenset())):
                    p = self.projection(v, self.IN.get(d, frozenset()))
                    parts.append(p if p and p != "ok" else f"`{e.id} = {short(v, 50)}` (line {d.line}) is arithmetic, not a projection")
            return "; ".join(parts) or f"`{e.id}` loses its in-box provenance on some path (in-place write or join with an arithmetic definition)"
        p = self.projection(e, frozenset())
        if p and p != "ok":
            return p
        return f"`{short(e, 60)}` is arithmetic: x + a*d can leave [lb, ub] by one ulp for any a"

    def _transfer(self, n: Node, st: FrozenSet[str]):
        out = set(st)
        changed = False
        # in-place writes first (np.clip(v, lb, ub, out=v) re-establishes)
        for t in self.mut_at.get(n, ()):
            if t in out:
                out.discard(t)
                changed = True
        for k, v, how in node_defs(n):
            if how == "bind" and v is not None and self.inbox(v, st):
                if k not in out:
                    out.add(k)
                    changed = True
            elif k in out or how in ("aug", "store"):
                if k in (self.lb, self.ub) and how != "bind":
                    pass
                if k in out:
                    out.discard(k)
                    changed = True
        # explicit in-place projection:  np.clip(v, lb, ub, out=v)
        for c in node_calls(n):
            o = kw(c, "out")
            if o is not None and isinstance(o, ast.Name) and self.projection(c, st) == "ok":
                out.add(o.id)
                changed = True
        return frozenset(out) if changed else st


def _single_def(ctx, f: Func, name: str) -> bool:
    cfg = ctx.cfg(f)
    defs = [n for n in cfg.nodes for k, _, _ in node_defs(n) if k == name]
    return len(defs) <= 1


@rule("BOX", min_instances=8)
def rule_box(ctx: Ctx) -> List[Ob]:
    """a projection onto the caller's [lb, ub] (np.clip / clip2bounds / min-max with the lb, ub
    obtained from get_bounds, followed only by copies) dominates every sink: the arguments of the
    wrapper's fun / grad / fun_and_grad in minimize_lbfgsb and line_search (incl. its closures), the
    point and state.x given to the callback, x= of every result, and the wrapper's cached point
    handed to approx_derivative"""
    mm = mainmodel(ctx)
    obs: List[Ob] = []
    f = mm.f
    need(_single_def(ctx, f, mm.lb) and _single_def(ctx, f, mm.ub),
         f"BOX: {mm.lb}/{mm.ub} are redefined in minimize_lbfgsb -- bounds identity lost")
    bf = BoxFlow(ctx, f, mm.lb, mm.ub, set())
    rd = mm.rd

    def sink(bflow: BoxFlow, fn: Func, rdx, n: Node, e: ast.expr, what: str):
        st = bflow.IN.get(n, frozenset())
        ok = bflow.inbox(e, st)
        obs.append(ob("BOX", f"{what} is a projection onto [lb, ub]", fn, e, ok,
                      f"`{short(e, 60)}` is in-box by construction (projection / copy of one on every path)" if ok
                      else bflow.why_not(e, n, rdx), construct=f"{what}: {short(e, 70)}"))

    cfg = mm.cfg
    # wrapper accessors in main
    for n in cfg.nodes:
        for c in node_calls(n):
            d = dotted(c.func) or ""
            if d.startswith(mm.sf + ".") and d.split(".")[-1] in SF_ACCESSORS and c.args:
                sink(bf, f, rd, n, c.args[0], f"argument of {d}")
            if isinstance(c.func, ast.Name) and c.func.id == "callback" and c.args:
                sink(bf, f, rd, n, c.args[0], "point given to the callback")
            if d == "OptimizeResult" and kw(c, "x") is not None:
                sink(bf, f, rd, n, kw(c, "x"), "x= of " + ("the callback state" if mm.in_loop(c) else "a returned result"))
            if d.endswith("prepare_scalar_function") and len(c.args) > 1:
                sink(bf, f, rd, n, c.args[1], "initial point cached by the wrapper")
    # line_search: bounds binding at the call, then its own sinks
    ls = ctx.repo.func("linesearch.line_search")
    ls_inbox: Set[str] = set()
    for n in cfg.nodes:
        for c in node_calls(n):
            if (dotted(c.func) or "").split(".")[-1] == "line_search":
                b = bind_args(c, ls.node)
                okb = src(b.get("lb")) == mm.lb and src(b.get("ub")) == mm.ub
                obs.append(ob("BOX", "line search receives the caller's bounds in the (lb, ub) slots", f, c, okb,
                              f"lb <- {short(b.get('lb'))}, ub <- {short(b.get('ub'))}", construct="line_search(lb=, ub=) binding"))
                if okb and b.get("x0") is not None and bf.inbox(b["x0"], bf.IN.get(n, frozenset())):
                    ls_inbox.add("x0")
    need(_single_def(ctx, ls, "lb") and _single_def(ctx, ls, "ub") and "lb" in ls.params and "ub" in ls.params,
         "BOX: lb/ub are not plain parameters of line_search")
    lbf = BoxFlow(ctx, ls, "lb", "ub", ls_inbox)
    lrd = ctx.rd(ls)
    lcfg = ctx.cfg(ls)
    nls = 0
    for n in lcfg.nodes:
        for c in node_calls(n):
            d = dotted(c.func) or ""
            if d.startswith("sf.") and d.split(".")[-1] in SF_ACCESSORS and c.args:
                nls += 1
                sink(lbf, ls, lrd, n, c.args[0], f"trial point of {d}")
    for q, g in ctx.repo.funcs.items():
        if g.parent is ls:
            gb = BoxFlow(ctx, g, "lb", "ub", set(), free_inbox={"lb", "ub"} | ls_inbox)
            grd = ctx.rd(g)
            for n in ctx.cfg(g).nodes:
                for c in node_calls(n):
                    d = dotted(c.func) or ""
                    if d.startswith("sf.") and d.split(".")[-1] in SF_ACCESSORS and c.args:
                        nls += 1
                        sink(gb, g, grd, n, c.args[0], f"trial point of {d} in closure {g.name}")
    need(nls >= 3, f"BOX: only {nls} trial-point sites found in line_search")
    # the wrapper's cached point: copies of accessor arguments only
    sfc = [g for q, g in ctx.repo.funcs.items() if g.cls == "ScalarFunction"]
    nw = 0
    for g in sfc:
        for s in walk_no_nested(g.node):
            if isinstance(s, ast.Assign) and any(src(t) == "self.x" for t in s.targets):
                nw += 1
                from ..flow import Expander
                base = uncopy(Expander(ctx, g).expand_at(s, s.value))      # local temporaries followed
                while isinstance(base, ast.Call) and dotted(base.func) in COPYLIKE_F and base.args:
                    base = uncopy(base.args[0])
                okw = isinstance(base, ast.Name) and base.id in g.params
                obs.append(ob("BOX", "wrapper's cached point is a copy of an accessor argument", g, s, okw,
                              f"self.x <- copy of parameter `{src(base)}`: in-box because every accessor argument is"
                              if okw else f"self.x <- {short(s.value)}: not a plain copy of the requested point"))
    need(nw >= 2, "BOX: writes of the wrapper's cached point not found")
    for g in sfc:
        for c in walk_no_nested(g.node):
            if isinstance(c, ast.Call) and (dotted(c.func) or "").endswith("approx_derivative"):
                x0 = c.args[1] if len(c.args) > 1 else kw(c, "x0")
                okx = x0 is not None and src(x0) == "self.x"
                obs.append(ob("BOX", "differencer is centred on the wrapper's cached point", g, c, okx,
                              f"x0 <- {short(x0)}", construct=f"approx_derivative(x0={short(x0)})"))
    # the package's own projection helper is trusted by name at its call sites: it must be one
    cb = ctx.repo.funcs.get("base.clip2bounds")
    if cb is not None and len(cb.params) >= 3:
        xp, lo_, hi_ = cb.params[0], cb.params[1], cb.params[2]
        for r_ in walk_no_nested(cb.node):
            if isinstance(r_, ast.Return) and r_.value is not None:
                e_ = r_.value
                while isinstance(e_, ast.Attribute) and e_.attr == "T":
                    e_ = e_.value
                okp, why_ = False, f"returns {short(r_.value, 60)}"
                if isinstance(e_, ast.Call) and dotted(e_.func) in ("np.clip", "numpy.clip"):
                    a_ = list(e_.args)
                    lo = a_[1] if len(a_) > 1 else kw(e_, "a_min") or kw(e_, "min")
                    hi = a_[2] if len(a_) > 2 else kw(e_, "a_max") or kw(e_, "max")
                    # what the clipped point is computed from: names, followed through every reaching definition of a local
                    rd_, cfg_ = ctx.rd(cb), ctx.cfg(cb)
                    pt, work_, seen_ = set(), [(cfg_.node_of(r_), x.id) for x in ast.walk(a_[0]) if isinstance(x, ast.Name)] if a_ else [], set()
                    while work_:
                        at_, nm_ = work_.pop()
                        if (id(at_), nm_) in seen_:
                            continue
                        seen_.add((id(at_), nm_))
                        ds_ = [(d_, v_) for d_, v_, how_ in rd_.value_exprs(at_, nm_) if d_ is not cfg_.entry]
                        if not ds_ or nm_ in cb.params and any(d_ is cfg_.entry for d_, _, _ in rd_.value_exprs(at_, nm_)):
                            pt.add(nm_)
                        for d_, v_ in ds_:
                            if v_ is None:
                                pt.add("?")
                            else:
                                work_ += [(d_, x.id) for x in ast.walk(v_) if isinstance(x, ast.Name)]
                    okp = lo is not None and hi is not None and src(lo) == lo_ and src(hi) == hi_ and pt <= {xp, "np"} and xp in pt \
                        and kw(e_, "out") is None
                    if not okp:
                        why_ += f": not np.clip(<{xp}>, {lo_}, {hi_})"
                elif isinstance(e_, ast.Call) and isinstance(e_.func, ast.Attribute) and e_.func.attr == "clip" and len(e_.args) == 2:
                    okp = src(e_.args[0]) == lo_ and src(e_.args[1]) == hi_
                obs.append(ob("BOX", "clip2bounds is the projection onto its (lb, ub) arguments", cb, r_, okp, why_,
                              construct=f"clip2bounds: return {short(r_.value, 50)}"))
    return obs


@rule("FDB", min_instances=4)
def rule_fdb(ctx: Ctx) -> List[Ob]:
    """the box given by the caller is the box given to the differencer: get_bounds -> (lb, ub) ->
    prepare_scalar_function(bounds=) -> ScalarFunction(finite_diff_bounds) -> options['bounds'] ->
    approx_derivative(**options), for every finite-difference mode"""
    mm = mainmodel(ctx)
    obs: List[Ob] = []
    psf = ctx.repo.func("scalar_function.prepare_scalar_function")
    init = ctx.repo.func("scalar_function.ScalarFunction.__init__")
    # hop 1
    for c in walk_no_nested(mm.f.node):
        if isinstance(c, ast.Call) and (dotted(c.func) or "").endswith("prepare_scalar_function"):
            b = bind_args(c, psf.node)
            v = b.get("bounds")
            ok = isinstance(v, ast.Tuple) and [src(e) for e in v.elts] == [mm.lb, mm.ub]
            obs.append(ob("FDB", "solver hands (lb, ub) of get_bounds to the wrapper factory", mm.f, c, ok,
                          f"bounds <- {short(v)}" + ("" if ok else f": expected ({mm.lb}, {mm.ub})"),
                          construct=f"prepare_scalar_function(bounds={short(v)})"))
    # hop 2
    n2 = 0
    for c in walk_no_nested(psf.node):
        if isinstance(c, ast.Call) and dotted(c.func) == "ScalarFunction":
            n2 += 1
            b = bind_args(c, init.node, skip_self=True)
            v = b.get("finite_diff_bounds")
            from ..flow import Expander
            ve = Expander(ctx, psf).expand_at(c, v) if v is not None else None
            inf = "(-np.inf, np.inf)"
            # every value that can reach the argument is the factory's own `bounds` parameter, or the infinite box standing in
            # for a MISSING box (bound under a condition equivalent to `bounds is None`)
            bp = "bounds"
            rdp = ctx.rd(psf)
            cfgp = ctx.cfg(psf)

            def guard_expr(stmt):
                g_ = None
                for p_ in ast.walk(psf.node):
                    if isinstance(p_, ast.If):
                        if any(stmt is y for b_ in p_.body for y in ast.walk(b_)):
                            g_ = p_.test if g_ is None else ast.BoolOp(op=ast.And(), values=[g_, p_.test])
                        elif any(stmt is y for b_ in p_.orelse for y in ast.walk(b_)):
                            ng = ast.UnaryOp(op=ast.Not(), operand=p_.test)
                            g_ = ng if g_ is None else ast.BoolOp(op=ast.And(), values=[g_, ng])
                return g_
            leaves = []      # (expr or None for the parameter itself, guard)

            def collect(at_node, e, guard, depth=0):
                if isinstance(e, ast.IfExp):
                    collect(at_node, e.body, e.test if guard is None else ast.BoolOp(op=ast.And(), values=[guard, e.test]), depth)
                    nt = ast.UnaryOp(op=ast.Not(), operand=e.test)
                    collect(at_node, e.orelse, nt if guard is None else ast.BoolOp(op=ast.And(), values=[guard, nt]), depth)
                    return
                if isinstance(e, ast.Name) and depth < 4:
                    for dn, x, how in rdp.value_exprs(at_node, e.id):
                        if x is None and dn is cfgp.entry or (x is None and e.id == bp and how != "bind"):
                            leaves.append((None if e.id == bp else e, guard))
                        elif x is None:
                            leaves.append((None if (e.id == bp and getattr(dn, "ast", None) is None) else e, guard))
                        else:
                            collect(dn, x, guard_expr(dn.ast) if getattr(dn, "ast", None) is not None else guard, depth + 1)
                    return
                leaves.append((e, guard))
            if v is not None:
                collect(cfgp.node_of(c), v, None)
            ok, rdefs = bool(leaves), []
            for e_, g_ in leaves:
                if e_ is None:
                    rdefs.append(f"{bp} (parameter)")
                    continue
                if src(e_).replace(" ", "") == inf.replace(" ", ""):
                    good_ = g_ is not None and bool_equiv(g_, f"{bp} is None")
                    rdefs.append(f"{inf} under `{short(g_) if g_ is not None else 'no guard'}`" + ("" if good_ else f": not exactly when `{bp} is None`"))
                    ok = ok and good_
                else:
                    rdefs.append(f"{short(e_)}: neither the parameter nor the infinite box")
                    ok = False
            obs.append(ob("FDB", "factory passes its bounds parameter on unchanged", psf, c, ok,
                          f"finite_diff_bounds <- {short(v)}; local redefinitions of bounds: {rdefs or 'none'}",
                          construct=f"ScalarFunction(finite_diff_bounds={short(v)})"))
    need(n2 >= 1, "FDB: ScalarFunction construction not found")
    # hop 3+4: the dict splatted into approx_derivative carries bounds=finite_diff_bounds in every FD mode
    def guard_of(fn_node, stmt):
        """innermost if-condition (as an expression) under which stmt runs, or None"""
        best = None
        for p in ast.walk(fn_node):
            if isinstance(p, ast.If):
                if any(stmt is x for b in p.body for x in ast.walk(b)):
                    best = p.test
                elif any(stmt is x for b in p.orelse for x in ast.walk(b)):
                    best = ast.UnaryOp(op=ast.Not(), operand=p.test)
        return best
    n4 = 0
    for q, g in ctx.repo.funcs.items():
        if g.cls != "ScalarFunction":
            continue
        for c in walk_no_nested(g.node):
            if isinstance(c, ast.Call) and (dotted(c.func) or "").endswith("approx_derivative"):
                n4 += 1
                stars = [k.value for k in c.keywords if k.arg is None and isinstance(k.value, ast.Name)]
                explicit = {k.arg: k.value for k in c.keywords if k.arg is not None}
                OPTS = ("method", "rel_step", "abs_step", "bounds")
                # the options reach the differencer either through one splatted dict (and then no explicit override) or as
                # explicit keywords (and then no splat that could override them)
                ok4 = (len(stars) == 1 and not (set(explicit) & set(OPTS))) or (not stars and all(k_ in explicit for k_ in OPTS))
                obs.append(ob("FDB", "differencer receives the options (incl. bounds) unchanged", g, c, ok4,
                              (f"**{stars[0].id} passed, no explicit override" if stars and ok4 else
                               f"options passed as keywords {sorted(set(explicit) & set(OPTS))}" if ok4 else
                               f"splat={[x.id for x in stars]}, explicit keywords={sorted(set(explicit) & set(OPTS))}: an option is missing or given twice"),
                              construct="approx_derivative(fun, x0, f0=, **options)"))
                if not ok4:
                    continue
                # where does the call run: the guard of the closure definition inside __init__ (explicit form)
                cl_guard = None
                if g.parent is not None:
                    cl_guard = guard_of(init.node, g.node)
                entries_of: Dict[str, list] = {k_: [] for k_ in OPTS}
                if stars:
                    D = stars[0].id
                    for s2 in ast.walk(init.node):
                        if isinstance(s2, ast.Assign) and len(s2.targets) == 1:
                            t2 = s2.targets[0]
                            if isinstance(t2, ast.Name) and t2.id == D and isinstance(s2.value, ast.Dict):
                                for kk, vv in zip(s2.value.keys, s2.value.values):
                                    if isinstance(kk, ast.Constant) and kk.value in entries_of:
                                        entries_of[kk.value].append((vv, guard_of(init.node, s2), s2))
                            elif isinstance(t2, ast.Subscript) and src(t2.value) == D and isinstance(t2.slice, ast.Constant) and t2.slice.value in entries_of:
                                entries_of[t2.slice.value].append((s2.value, guard_of(init.node, s2), s2))
                    label = D
                else:
                    for k_ in OPTS:
                        entries_of[k_].append((explicit[k_], cl_guard, c))
                    label = "keyword"
                want = {"method": "grad", "rel_step": "finite_diff_rel_step", "abs_step": "epsilon"}
                for key, param in want.items():
                    es = [e_[0] for e_ in entries_of[key]]
                    oke = len(es) == 1 and src(es[0]) == param
                    # ... and `param` is still what the caller passed: the constructor never rebinds it
                    rebound = [x_ for x_ in ast.walk(init.node) if isinstance(x_, ast.Name) and x_.id == param and isinstance(x_.ctx, ast.Store)]
                    note_ = ""
                    if oke and rebound:
                        oke = False
                        note_ = f": `{param}` is reassigned at line {rebound[0].lineno} of the constructor -- the option is no longer the caller's value"
                    obs.append(ob("FDB", f"options['{key}'] is the caller's {param}", init, es[0] if es else init.node, oke,
                                  f"{label}['{key}'] <- {[short(x) for x in es]}" + note_ + ("" if oke or note_ else
                                  f": expected exactly one binding to `{param}` (the step of the scheme must not depend on anything else, e.g. the start point)"),
                                  False, construct=f"options['{key}'] = {param}"))
                entries = entries_of["bounds"]
                good = [e for e in entries if src(e[0]) == "finite_diff_bounds" and
                        (e[1] is None or bool_equiv(e[1], "grad in FD_METHODS") or bool_equiv(e[1], "not callable(grad) and grad in FD_METHODS"))]
                bad = [e for e in entries if e not in good]
                ok3 = bool(good) and not bad
                obs.append(ob("FDB", "options['bounds'] is the caller's box in every finite-difference mode", init,
                              (entries[0][2] if entries else init.node), ok3,
                              ("; ".join(f"bounds <- {short(v)} under `{short(cnd) if cnd is not None else 'always'}`" for v, cnd, _ in entries)
                               or "the options never receive a 'bounds' entry") +
                              ("" if ok3 else ": in some finite-difference mode the stencil is not confined to [lb, ub]"),
                              construct="options['bounds'] = finite_diff_bounds  (grad in FD_METHODS)"))
    need(n4 >= 1, "FDB: approx_derivative call not found")
    return obs


class ModeInterp:
    """abstract interpretation of a function over the gradient-mode parameter:
    value in {CALLABLE, FD (a string of FD_METHODS), NONE, OTHER}; unknown tests fork"""

    def __init__(self, fn: ast.FunctionDef, param: str, value: str):
        self.fn, self.param, self.value = fn, param, value
        self.outcomes = []      # (kind, env) ; kind in raise / return / end

    def atom(self, e, env):
        """True / False / None(unknown)"""
        if isinstance(e, ast.Constant) and isinstance(e.value, bool):
            return e.value
        if isinstance(e, ast.Name):
            v = env.get(e.id)
            return v if isinstance(v, bool) else None
        if isinstance(e, ast.UnaryOp) and isinstance(e.op, ast.Not):
            v = self.atom(e.operand, env)
            return None if v is None else (not v)
        if isinstance(e, ast.BoolOp):
            vs = [self.atom(v, env) for v in e.values]
            if isinstance(e.op, ast.And):
                return False if any(v is False for v in vs) else (True if all(v is True for v in vs) else None)
            return True if any(v is True for v in vs) else (False if all(v is False for v in vs) else None)
        if isinstance(e, ast.Call) and dotted(e.func) == "callable" and e.args:
            a = self.val(e.args[0], env)
            return None if a is None else a == "CALLABLE"
        if isinstance(e, ast.Compare) and len(e.ops) == 1:
            l, r, op = self.val(e.left, env), e.comparators[0], e.ops[0]
            if l is not None and isinstance(op, (ast.In, ast.NotIn)) and src(r) == "FD_METHODS":
                res = l == "FD" or (isinstance(l, tuple) and l[0] == "const" and l[1] in ("2-point", "3-point", "cs"))
                return res if isinstance(op, ast.In) else (not res)
            if l is not None and isinstance(op, (ast.Is, ast.IsNot)) and isinstance(r, ast.Constant) and r.value is None:
                res = l == "NONE"
                return res if isinstance(op, ast.Is) else (not res)
            if l is not None and isinstance(op, (ast.Eq, ast.NotEq)) and isinstance(r, ast.Constant) and isinstance(r.value, str):
                if l == "FD":
                    return None
                res = isinstance(l, tuple) and l[1] == r.value
                return res if isinstance(op, ast.Eq) else (not res)
        return None

    def val(self, e, env):
        """abstract value of an expression of interest, None if not tracked"""
        if isinstance(e, ast.Name):
            return env.get(e.id)
        if isinstance(e, ast.Constant):
            return "NONE" if e.value is None else ("const", e.value) if isinstance(e.value, str) else None
        if isinstance(e, ast.IfExp):
            c = self.atom(e.test, env)
            if c is None:
                a, b = self.val(e.body, env), self.val(e.orelse, env)
                return a if a == b else None
            return self.val(e.body if c else e.orelse, env)
        return None

    def run(self):
        self.block(self.fn.body, {self.param: self.value})
        return self.outcomes

    def block(self, stmts, env):
        """returns list of envs that fall through"""
        envs = [env]
        for s in stmts:
            nxt = []
            for e in envs:
                nxt += self.stmt(s, e)
            envs = nxt
            if not envs:
                break
        return envs

    def stmt(self, s, env):
        if isinstance(s, ast.Raise):
            self.outcomes.append(("raise", env))
            return []
        if isinstance(s, ast.Return):
            self.outcomes.append(("return", {**env, "__ret__": s.value}))
            return []
        if isinstance(s, ast.If):
            c = self.atom(s.test, env)
            out = []
            if c is not False:
                out += self.block(s.body, dict(env))
            if c is not True:
                out += self.block(s.orelse, dict(env))
            return out
        if isinstance(s, (ast.Assign, ast.AnnAssign)) and getattr(s, "value", None) is not None:
            t = s.targets[0] if isinstance(s, ast.Assign) else s.target
            if isinstance(t, ast.Name):
                env = dict(env)
                b = self.atom(s.value, env) if isinstance(s.value, (ast.Call, ast.Compare, ast.BoolOp, ast.UnaryOp)) else None
                v = b if b is not None else self.val(s.value, env)
                if v is None and isinstance(s.value, ast.Name) and s.value.id == t.id:
                    return [env]     # x = x
                env[t.id] = v if v is not None else ("expr", src(s.value))
            return [env]
        if isinstance(s, ast.FunctionDef):
            env = dict(env)
            env["def:" + s.name] = s
            return [env]
        return [env]


@rule("MODES", min_instances=5)
def rule_modes(ctx: Ctx) -> List[Ob]:
    """every documented gradient mode has a handler on both sides, decided by abstract interpretation
    over the mode value {callable, FD string, None, anything else}: the factory maps a callable to
    itself, a listed scheme to itself with the absolute step disabled, None to a listed scheme keeping
    the absolute step, and raises on anything else; the wrapper raises on anything but a callable or a
    listed scheme and installs the matching gradient updater"""
    m = ctx.repo.module("scalar_function")
    psf = ctx.repo.func("scalar_function.prepare_scalar_function")
    init = ctx.repo.func("scalar_function.ScalarFunction.__init__")
    obs: List[Ob] = []
    fd = None
    for s in m.tree.body:
        if isinstance(s, ast.Assign) and any(isinstance(t, ast.Name) and t.id == "FD_METHODS" for t in s.targets):
            fd = s
    need(fd is not None, "FD_METHODS not found")
    try:
        vals = set(ast.literal_eval(fd.value))
    except Exception:
        vals = set()
    ok = vals == {"2-point", "3-point", "cs"}
    obs.append(Ob("MODES", "FD_METHODS lists the three differencing schemes", m.rel, fd.lineno, "scalar_function",
                  short(fd), ok, f"{sorted(vals)}"))
    need("jac" in psf.params and "epsilon" in psf.params, "MODES: prepare_scalar_function(jac, epsilon) parameters not found")

    def ctor_args(env):
        """(grad, epsilon) abstract values reaching the ScalarFunction construction on this path"""
        call = None
        r = env.get("__ret__")
        cands = [r] if r is not None else []
        for k, v in env.items():
            if isinstance(v, tuple) and v[0] == "expr" and "ScalarFunction(" in v[1]:
                cands.append(ast.parse(v[1], mode="eval").body)
        for c in cands:
            for x in ast.walk(c):
                if isinstance(x, ast.Call) and dotted(x.func) == "ScalarFunction":
                    call = x
        if call is None:
            return None
        b = bind_args(call, init.node, skip_self=True)
        mi = ModeInterp(psf.node, "jac", env.get("jac"))
        return mi.val(b.get("grad"), env), (mi.val(b.get("epsilon"), env) if b.get("epsilon") is not None else "NONE")
    for value, expect in (("CALLABLE", "a callable gradient is handed on as it is"),
                          ("FD", "a listed scheme is handed on, the absolute step is disabled"),
                          ("NONE", "None becomes a listed scheme, the absolute step is kept"),
                          ("OTHER", "anything else raises")):
        mi = ModeInterp(psf.node, "jac", value)
        mi.block(psf.node.body, {"jac": value, "epsilon": ("param", "epsilon")})
        outs = mi.outcomes
        kinds = sorted({k for k, _ in outs})
        if value == "OTHER":
            okv = kinds == ["raise"]
            why = f"outcomes {kinds}"
        else:
            okv = bool(outs) and all(k == "return" for k, _ in outs)
            details = []
            for k, env in outs:
                if k != "return":
                    continue
                ca = ctor_args(env)
                if ca is None:
                    okv = False
                    details.append("no ScalarFunction construction")
                    continue
                g, eps = ca
                if value == "CALLABLE":
                    good = g == "CALLABLE"
                elif value == "FD":
                    good = g == "FD" and eps == "NONE"
                else:
                    good = isinstance(g, tuple) and g[0] == "const" and g[1] in vals and eps == ("param", "epsilon")
                okv = okv and good
                details.append(f"grad={g}, epsilon={eps}")
            why = f"outcomes {kinds}: " + "; ".join(details)
        obs.append(ob("MODES", f"factory: {expect}", psf, psf.node, okv, why, construct=f"prepare_scalar_function[jac is {value}]"))
    # wrapper side
    kinds_def = {}
    for value in ("CALLABLE", "FD", "OTHER"):
        mi = ModeInterp(init.node, "grad", value)
        envs = mi.block(init.node.body, {"grad": value})
        raised = any(k == "raise" for k, _ in mi.outcomes)
        upd = {("fd" if any((dotted(c.func) or "").endswith("approx_derivative") for c in ast.walk(e["def:update_grad"]) if isinstance(c, ast.Call))
                else "callable") for e in envs if "def:update_grad" in e}
        kinds_def[value] = (raised, bool(envs), upd)
    okw = kinds_def["OTHER"][0] and not kinds_def["OTHER"][1] and \
        not kinds_def["CALLABLE"][0] and kinds_def["CALLABLE"][2] == {"callable"} and \
        not kinds_def["FD"][0] and kinds_def["FD"][2] == {"fd"}
    obs.append(ob("MODES", "wrapper rejects anything but a callable or a listed scheme and installs the matching updater", init, init.node, okw,
                  "; ".join(f"{k}: raises={v[0]}, continues={v[1]}, updater={sorted(v[2])}" for k, v in kinds_def.items()),
                  construct="ScalarFunction.__init__[grad mode]"))
    return obs


@rule("GETB", min_instances=1)
def rule_getb(ctx: Ctx) -> List[Ob]:
    """the box the solver works in is the caller's: get_bounds converts the (min, max) pairs with SciPy's
    old_bound_to_new, or replaces a side by infinity only when that side `is None` -- never on its truth value
    (0 is a bound), and never changes a finite side"""
    f = ctx.repo.func("base.get_bounds")
    obs: List[Ob] = []
    rets = [r for r in walk_no_nested(f.node) if isinstance(r, ast.Return) and r.value is not None]
    need(len(rets) >= 1, "GETB: get_bounds has no return")
    bp = f.params[1] if len(f.params) > 1 else "bounds"
    conv = [s for s in walk_no_nested(f.node) if isinstance(s, ast.Assign) and isinstance(s.value, ast.Call)
            and (dotted(s.value.func) or "").split(".")[-1] == "old_bound_to_new"]
    if conv:
        ok = all(len(s.value.args) == 1 and src(s.value.args[0]) == bp for s in conv)
        obs.append(ob("GETB", "bounds are converted by SciPy's old_bound_to_new applied to the caller's pairs", f, conv[0], ok,
                      f"{short(conv[0])}", construct="lb, ub = old_bound_to_new(bounds)"))
        # ... and what is returned is that conversion, untouched: no later rebinding (other than a dtype / array
        # conversion of the same name) and no in-place write of the two vectors
        tg = conv[0].targets[0]
        names = [e.id for e in tg.elts] if isinstance(tg, ast.Tuple) and all(isinstance(e, ast.Name) for e in tg.elts) else []
        touched = []
        IDENT = ("np.asarray", "np.array", "np.atleast_1d", "np.ascontiguousarray", "np.broadcast_to", "np.copy")
        for st in walk_no_nested(f.node):
            if st is conv[0]:
                continue
            if isinstance(st, (ast.Assign, ast.AugAssign, ast.AnnAssign)):
                for t in (st.targets if isinstance(st, ast.Assign) else [st.target]):
                    base = t
                    while isinstance(base, (ast.Subscript, ast.Attribute)):
                        base = base.value
                    for nm in ([base.id] if isinstance(base, ast.Name) else []) + [x.id for x in (t.elts if isinstance(t, ast.Tuple) else []) if isinstance(x, ast.Name)]:
                        if nm in names:
                            v = getattr(st, "value", None)
                            same = isinstance(st, ast.Assign) and t is base and v is not None and (
                                (isinstance(v, ast.Call) and dotted(v.func) in IDENT and v.args and src(v.args[0]) == nm) or
                                (isinstance(v, ast.Call) and isinstance(v.func, ast.Attribute) and v.func.attr in ("astype", "copy") and src(v.func.value) == nm))
                            if not same:
                                touched.append((st, nm))
            if isinstance(st, ast.Call) and (kw(st, "out") is not None and src(kw(st, "out")) in names):
                touched.append((st, src(kw(st, "out"))))
        retnames = [src(e) for e in rets[-1].value.elts] if isinstance(rets[-1].value, ast.Tuple) else [src(rets[-1].value)]
        okr = not touched and bool(names) and retnames == names
        obs.append(ob("GETB", "the converted vectors are returned as they are (a finite side is never changed)", f,
                      touched[0][0] if touched else rets[-1], okr,
                      (f"`{short(touched[0][0], 70)}` rewrites {touched[0][1]} after the conversion: some finite bounds are no longer the caller's" if touched
                       else f"returns {retnames}; conversion targets {names}"), construct="return lb, ub of old_bound_to_new"))
        return obs
    # explicit conversion: look at every infinity literal and every truth-value test on a bound value
    bad, good = [], 0
    parents = {id(c): p for p in ast.walk(f.node) for c in ast.iter_child_nodes(p)}

    def is_inf(e) -> bool:
        e2 = e.operand if isinstance(e, ast.UnaryOp) and isinstance(e.op, (ast.USub, ast.UAdd)) else e
        return (dotted(e2) or "") in ("np.inf", "math.inf", "numpy.inf") or \
            (isinstance(e2, ast.Call) and dotted(e2.func) == "float" and e2.args and isinstance(e2.args[0], ast.Constant)
             and str(e2.args[0].value).lower().lstrip("+-") in ("inf", "infinity"))
    for e in ast.walk(f.node):
        if isinstance(e, ast.BoolOp) and isinstance(e.op, ast.Or) and any(is_inf(v) for v in e.values[1:]):
            bad.append((e, f"`{short(e)}`: a side is replaced by infinity whenever it is falsy -- a bound equal to 0 is lost"))
        elif isinstance(e, ast.IfExp) and (is_inf(e.body) or is_inf(e.orelse)):
            t = e.test
            while isinstance(t, ast.UnaryOp) and isinstance(t.op, ast.Not):
                t = t.operand
            isnone = isinstance(t, ast.Compare) and len(t.ops) == 1 and isinstance(t.ops[0], (ast.Is, ast.IsNot)) and \
                isinstance(t.comparators[0], ast.Constant) and t.comparators[0].value is None
            if isnone:
                good += 1
            else:
                bad.append((e, f"`{short(e)}`: infinity chosen under `{short(e.test)}`, not under an `is None` test"))
        elif isinstance(e, ast.If) and any(is_inf(x.value) for b in (e.body + e.orelse) for x in ast.walk(b)
                                           if isinstance(x, (ast.Assign, ast.AugAssign)) and x.value is not None):
            t = e.test
            while isinstance(t, ast.UnaryOp) and isinstance(t.op, ast.Not):
                t = t.operand
            isnone = isinstance(t, ast.Compare) and len(t.ops) == 1 and isinstance(t.ops[0], (ast.Is, ast.IsNot, ast.Eq, ast.NotEq)) and \
                isinstance(t.comparators[0], ast.Constant) and t.comparators[0].value is None
            if isnone:
                good += 1
            else:
                bad.append((e, f"infinity assigned under `{short(e.test)}`, not under an `is None` test"))
    if not bad and not good:
        raise AnalysisError("GETB: the conversion of the (min, max) pairs in get_bounds is not understood")
    for e, why in bad:
        obs.append(ob("GETB", "a side of the box becomes infinite only when it is None", f, e, False, why, construct=short(e, 60)))
    if not bad:
        obs.append(ob("GETB", "a side of the box becomes infinite only when it is None", f, rets[0], True,
                      f"{good} conversion site(s), all under `is None` tests", construct="explicit conversion of the bounds"))
    return obs
