"""OWN, SHARED, NONDET -- confinement rules of C14 (and SHARED for C20)."""
from __future__ import annotations

import ast
from typing import List

from .. import tables as T
from ..alias import engine, is_private, root, _immutable_literal
from ..core import Ob, dotted, ob, short, walk_no_nested
from ..runner import Ctx, rule


def _accum(q: str) -> set:
    return set(T.ACCUMULATORS.get(q.split("#")[0], set())) | T.ACCUMULATOR_NAMES


@rule("OWN", min_instances=40)
def rule_own(ctx: Ctx) -> List[Ob]:
    """every in-place write of the package (augmented assignment, element/slice/attribute
    store, in-place callee, out= keyword, deque mutator, write through a callee's summary)
    targets only objects created inside the call, or a documented accumulator parameter;
    no write may reach an object owned by the caller (x0, bounds, args, checkpoint and what
    hangs off it at the API; every array parameter inside the package)"""
    eng = engine(ctx)
    obs: List[Ob] = []
    for q in sorted(eng.fa):
        fa = eng.fa[q]
        f = fa.f
        acc = _accum(q)
        if q == T.API_ENTRY:
            acc = set()
        for m in fa.mutations:
            bad = []
            for o in m.origins:
                if is_private(o):
                    continue
                if o[0] == "param" and root(o) in acc and "[]" not in o[1]:
                    continue   # the accumulator object itself (append / popleft / attribute or slot store)
                # an *element* taken out of an accumulator container (X.popleft(), G[-1], iteration) is not
                # licensed: the history holds checkpoint.jac by reference after a restart and the arrays of
                # states already handed to the callback, so recycling a buffer writes a caller-owned object
                if o[0] == "free":
                    continue   # charged to the enclosing function at the closure definition
                if o[0] in ("global", "default"):
                    continue   # SHARED's business
                bad.append(o)
            nontrivial = any(not is_private(o) for o in m.origins) or m.how.startswith("callee")
            if bad:
                chain = "; ".join(f"{o[0]}:{o[1]}" + (" (element of an accumulator container: may be the caller's checkpoint.jac "
                                                       "or an array of a state already handed out)" if o[0] == "param" and "[]" in str(o[1])
                                                       and root(o) in acc else "") for o in bad)
                obs.append(ob("OWN", "write targets only private objects or accumulators", f, m.site, False,
                              f"{m.how} on `{m.target}` may write caller-owned object(s) [{chain}] "
                              f"(alias chain: `{m.target}` <- {chain})", construct=short(m.node.ast if m.node.ast is not None else m.site)))
            else:
                kinds = sorted({o[0] if o[0] != "param" else f"accumulator {root(o)}" for o in m.origins}) or ["scalar"]
                obs.append(ob("OWN", "write targets only private objects or accumulators", f, m.site, True,
                              f"{m.how} on `{m.target}`: origins {kinds}", nontrivial,
                              construct=short(m.node.ast if m.node.ast is not None else m.site)))
    # accumulator arguments at the API level must be the solver's own objects
    fa = eng.fa[T.API_ENTRY]
    for n in fa.cfg.nodes:
        if n not in fa.IN:
            continue
    ctx.notes["unclassified_callees"] = eng.unclassified()
    return obs


MUTABLE_CTORS = {"list", "dict", "set", "deque", "Deque", "np.zeros", "np.array", "np.ones", "np.empty",
                 "bytearray", "defaultdict", "OrderedDict", "Counter"}
CACHING_DECORATORS = {"lru_cache", "functools.lru_cache", "cache", "functools.cache", "cached_property",
                      "functools.cached_property", "memoize"}
OK_DECORATORS = {"dataclass", "property", "staticmethod", "classmethod", "abstractmethod", "overload"}


def _mutable_value(e: ast.expr) -> bool:
    if isinstance(e, (ast.List, ast.Dict, ast.Set, ast.ListComp, ast.DictComp, ast.SetComp)):
        return True
    if isinstance(e, ast.Call):
        return True   # any call at import time builds an object we know nothing about
    return False


@rule("SHARED", min_instances=20)
def rule_shared(ctx: Ctx) -> List[Ob]:
    """no state outlives a call: default-argument objects are immutable (or never written /
    handed to a writing callee), class attributes are immutable literals and never written
    through the class, module-level objects are never written from inside a function, there
    is no `global` statement, no caching decorator and no function attribute"""
    eng = engine(ctx)
    obs: List[Ob] = []
    # (a) writes reaching module-level or default-argument objects
    for q in sorted(eng.fa):
        fa = eng.fa[q]
        for m in fa.mutations:
            sh = [o for o in m.origins if o[0] in ("global", "default")]
            if sh:
                obs.append(ob("SHARED", "no write to an object that outlives the call", fa.f, m.site, False,
                              f"{m.how} on `{m.target}` writes {', '.join(o[0] + ' object ' + str(o[1]) for o in sh)}: "
                              f"the object is shared by every call in the process",
                              construct=short(m.node.ast if m.node.ast is not None else m.site)))
    # (b) default arguments
    for q, f in sorted(ctx.repo.funcs.items()):
        for p, d in f.defaults().items():
            imm = _immutable_literal(d)
            if imm:
                obs.append(ob("SHARED", "default argument is immutable", f, d, True,
                              f"{p}={short(d, 40)}", False, construct=f"{p}={short(d, 60)}"))
                continue
            fa = eng.fa[q]
            key = ("default", f"{f.qual}.{p}")
            wr = [m for g in eng.fa.values() for m in g.mutations if key in m.origins]
            esc = [n for n, v in fa.returns if key in (v.flat() if hasattr(v, "flat") else v)]
            st = [s for s in fa.stores_into if key in s[2]]
            ok = not wr and not esc and not st
            obs.append(ob("SHARED", "mutable default argument is never written and never escapes", f, d, ok,
                          f"{p}={short(d, 40)} is created once at import; " +
                          ("no write, return or store reaches it" if ok else
                           "it is " + ("written at line %d" % wr[0].node.line if wr else "returned / stored") +
                           ": shared between all calls (nested / concurrent runs interfere)"),
                          construct=f"{p}={short(d, 60)}"))
    # (c) class bodies
    for cq, c in sorted(ctx.repo.classes.items()):
        mod = ctx.repo.modules[cq.split(".")[0]]
        for s in c.body:
            if isinstance(s, (ast.Assign, ast.AnnAssign)) and getattr(s, "value", None) is not None:
                ok = _immutable_literal(s.value) or (
                    isinstance(s.value, ast.List) and all(isinstance(x, ast.Constant) for x in s.value.elts)
                    and any(isinstance(t, ast.Name) and t.id == "__slots__"
                            for t in (s.targets if isinstance(s, ast.Assign) else [s.target])))
                obs.append(Ob("SHARED", "class attribute is an immutable literal", mod.rel, s.lineno, cq,
                              short(s), ok,
                              "class-level value shared by all instances" + ("" if ok else ": mutable"), False))
    # (d) module level: global statements, decorators, mutable module objects written (covered by (a))
    for m in ctx.repo.modules.values():
        for n in ast.walk(m.tree):
            if isinstance(n, (ast.Global, ast.Nonlocal)) and isinstance(n, ast.Global):
                obs.append(Ob("SHARED", "no global statement", m.rel, n.lineno, m.name, short(n), False,
                              "a function rebinds module-level state: it outlives the call"))
            if isinstance(n, (ast.FunctionDef, ast.ClassDef)):
                for d in n.decorator_list:
                    nm = dotted(d.func) if isinstance(d, ast.Call) else dotted(d)
                    bad = nm in CACHING_DECORATORS or (nm is not None and nm.split(".")[-1] in CACHING_DECORATORS)
                    obs.append(Ob("SHARED", "no caching decorator", m.rel, d.lineno, f"{m.name}.{n.name}",
                                  "@" + short(d), not bad,
                                  "memoises results across calls" if bad else "decorator keeps no per-call state",
                                  False))
        for s in m.tree.body:
            if isinstance(s, (ast.Assign, ast.AnnAssign)) and getattr(s, "value", None) is not None:
                tg = s.targets if isinstance(s, ast.Assign) else [s.target]
                names = [t.id for t in tg if isinstance(t, ast.Name)]
                mut = _mutable_value(s.value) and not all(nm.startswith("__") for nm in names)
                if not mut:
                    obs.append(Ob("SHARED", "module-level binding is a constant / type / function", m.rel, s.lineno,
                                  m.name, short(s, 80), True, "immutable or dunder metadata", False))
                else:
                    # a module-level mutable object is acceptable only if no function can reach it
                    used = [f.qual for f in ctx.repo.funcs.values() if f.module is m and
                            any(isinstance(x, ast.Name) and x.id in names for x in ast.walk(f.node))]
                    obs.append(Ob("SHARED", "module-level mutable object is not reachable from any function",
                                  m.rel, s.lineno, m.name, short(s, 80), not used,
                                  "referenced by " + ", ".join(used) if used else "no function refers to it"))
    # (e) process-wide settings: a setter call changes the environment of every later call in the process (and is not
    # undone when an exception leaves the function); the scoped forms (`with np.errstate(..)`, and warning filters inside
    # `with warnings.catch_warnings()`) are the only accepted ones
    for q, f in sorted(ctx.repo.funcs.items()):
        parents = {id(c): p_ for p_ in ast.walk(f.node) for c in ast.iter_child_nodes(p_)}
        for c in walk_no_nested(f.node):
            if not isinstance(c, ast.Call):
                continue
            d = dotted(c.func) or ""
            if d not in GLOBAL_SETTERS and not (d.split(".")[-1] in ("seterr", "seterrcall", "setlocale", "set_printoptions") and "." in d):
                continue
            scoped = False
            if d.startswith("warnings."):
                n_ = c
                while id(n_) in parents:
                    n_ = parents[id(n_)]
                    if isinstance(n_, ast.With) and any((dotted(it.context_expr.func) if isinstance(it.context_expr, ast.Call) else dotted(it.context_expr))
                                                         == "warnings.catch_warnings" for it in n_.items):
                        scoped = True
            obs.append(ob("SHARED", "no process-wide setting is changed (only scoped forms)", f, c, scoped,
                          f"`{short(c, 60)}`" + (" inside `with warnings.catch_warnings()`: undone on every exit" if scoped else
                                                 ": changes the floating-point / warning / locale environment of the whole process; it outlives the call, "
                                                 "and an exception in between skips any manual restore"),
                          construct=short(c, 60)))
    return obs


GLOBAL_SETTERS = {"np.seterr", "numpy.seterr", "np.seterrcall", "np.setbufsize", "np.set_printoptions", "np.random.seed", "random.seed",
                  "warnings.simplefilter", "warnings.filterwarnings", "warnings.resetwarnings", "os.putenv", "os.chdir", "os.umask",
                  "locale.setlocale", "sys.setrecursionlimit", "sys.setswitchinterval", "logging.basicConfig", "logging.disable",
                  "logging.captureWarnings", "np.seterrobj"}

NONDET_MODULES = {"random", "time", "datetime", "uuid", "secrets", "os", "threading", "multiprocessing"}
NONDET_CALLS = {"id", "hash", "np.random", "os.environ", "os.getenv", "os.getpid", "time.time", "input"}


@rule("NONDET", min_instances=1)
def rule_nondet(ctx: Ctx) -> List[Ob]:
    """the package uses no source of nondeterminism (random, np.random, time, os.environ,
    id(), hash(), iteration over a set)"""
    obs: List[Ob] = []
    for m in ctx.repo.modules.values():
        n_checked = 0
        for n in ast.walk(m.tree):
            if isinstance(n, ast.Import):
                for a in n.names:
                    n_checked += 1
                    if a.name.split(".")[0] in NONDET_MODULES:
                        obs.append(Ob("NONDET", "no nondeterminism source", m.rel, n.lineno, m.name, short(n),
                                      False, f"module {a.name} gives run-dependent values"))
            elif isinstance(n, ast.ImportFrom):
                n_checked += 1
                if n.module and (n.module.split(".")[0] in NONDET_MODULES or n.module.startswith("numpy.random")):
                    obs.append(Ob("NONDET", "no nondeterminism source", m.rel, n.lineno, m.name, short(n),
                                  False, f"module {n.module} gives run-dependent values"))
            elif isinstance(n, (ast.Attribute, ast.Name)):
                d = dotted(n)
                if d and (d in NONDET_CALLS or d.startswith("np.random") or d.startswith("numpy.random")):
                    if isinstance(n, ast.Name) and not isinstance(getattr(n, "ctx", None), ast.Load):
                        continue
                    # builtins id/hash only when called
                    obs.append(Ob("NONDET", "no nondeterminism source", m.rel, n.lineno, m.name, d, False,
                                  f"{d} is run-dependent"))
            elif isinstance(n, ast.For):
                it = n.iter
                if isinstance(it, (ast.Set, ast.SetComp)) or (isinstance(it, ast.Call) and dotted(it.func) in ("set", "frozenset")):
                    obs.append(Ob("NONDET", "no nondeterminism source", m.rel, n.lineno, m.name, short(it), False,
                                  "iteration order over a set is not specified"))
        obs.append(Ob("NONDET", "module scanned for nondeterminism sources", m.rel, 1, m.name,
                      f"{m.rel}: {n_checked} imports scanned", True, "no import of / reference to "
                      + ", ".join(sorted(NONDET_MODULES)) + ", np.random, id(), hash()", False))
    return obs
