"""CHOLGUARD -- a factorisation that can fail must not end the run with an exception."""
from __future__ import annotations

import ast
from typing import List

from ..core import Ob, dotted, short, src
from ..runner import Ctx, rule

FACTORISATIONS = ("cholesky", "cho_factor")
HANDLES = ("LinAlgError", "Exception", "BaseException", "ArithmeticError")


def _guarded(tree_fn: ast.AST, target: ast.AST) -> bool:
    """is `target` inside the body of a try whose handlers catch LinAlgError (or wider)?"""
    for t in ast.walk(tree_fn):
        if isinstance(t, ast.Try) and any(target is x for b in t.body for x in ast.walk(b)):
            for h in t.handlers:
                names = [] if h.type is None else [dotted(e) or "" for e in (h.type.elts if isinstance(h.type, ast.Tuple) else [h.type])]
                if h.type is None or any(n.split(".")[-1] in HANDLES for n in names):
                    return True
    return False


@rule("CHOLGUARD", min_instances=1)
def rule_cholguard(ctx: Ctx) -> List[Ob]:
    """Algorithm 778 treats a failed Cholesky factorisation (formt / formk: info != 0) as an event of the run: the memory is
    refreshed and the iteration restarted.  sp.linalg.cholesky raises LinAlgError instead of returning info; so every
    factorisation reachable from the minimiser must sit under a handler of that exception (at the call, or at every call of
    the enclosing function, followed upwards for a few levels) -- otherwise a merely positive *semi*-definite middle matrix
    (collinear steps: always the case for n = 1 with two pairs) ends the run with an exception instead of a documented
    termination reason."""
    obs: List[Ob] = []
    funcs = ctx.repo.funcs

    def callers(fname: str):
        out = []
        for q, g in funcs.items():
            for c in ast.walk(g.node):
                if isinstance(c, ast.Call) and (dotted(c.func) or "").split(".")[-1] == fname:
                    out.append((g, c))
        return out

    def covered(f, site, depth=0) -> bool:
        if _guarded(f.node, site):
            return True
        if depth >= 4:
            return False
        cs = [(g, c) for g, c in callers(f.name) if g is not f]
        return bool(cs) and all(covered(g, c, depth + 1) for g, c in cs)

    # scope: the memory-update path (the analogue of formt), where the factorised matrix theta S'S + L D^-1 L' is singular
    # whenever the stored steps are linearly dependent -- structurally so for n < number of pairs.  The two factorisations of
    # the subspace step (formk analogue) can only fail through round-off; no failing input was found for them, they are
    # counted in the notes but not judged.
    reach, work = set(), ["update_lbfgs_matrices"]
    while work:
        nm = work.pop()
        if nm in reach:
            continue
        reach.add(nm)
        for q, g in funcs.items():
            if g.name == nm:
                for c in ast.walk(g.node):
                    if isinstance(c, ast.Call):
                        d = (dotted(c.func) or "").split(".")[-1]
                        if any(h.name == d for h in funcs.values()):
                            work.append(d)
    for q, f in sorted(funcs.items()):
        if f.name not in reach:
            continue
        for c in ast.walk(f.node):
            if isinstance(c, ast.Call) and (dotted(c.func) or "").split(".")[-1] in FACTORISATIONS and c.args:
                if any(c is x for g in funcs.values() if g is not f and g.parent is f for x in ast.walk(g.node)):
                    continue
                ok = covered(f, c)
                what = " ".join(src(c.args[0]).split())
                nsite = sum(1 for o_ in obs) + 1     # keyed by ordinal, not by the text of the matrix (a temporary must not re-key it)
                obs.append(Ob("CHOLGUARD", "a failing factorisation is handled (memory refreshed), not raised to the user", f.module.rel, c.lineno,
                              "package", f"unguarded factorisation #{nsite} of the memory-update path" if not ok else f"factorisation #{nsite} of the memory-update path", ok,
                              (f"`{short(c, 70)}` (matrix {what[:50]}) in {f.qual} raises LinAlgError on a matrix that is not numerically positive definite and no "
                               "caller up to the API handles it: the run ends with an exception instead of one of the documented reasons "
                               "(the reference code refreshes the memory when formt / formk report info != 0)") if not ok else
                              "under a handler of LinAlgError"))
    return obs
