"""SF1..SF7 -- typestate and counting rules of the ScalarFunction wrapper (C15, C05, C16, C17)."""
from __future__ import annotations

import ast
from typing import Dict, List, Optional, Set

from ..alias import engine, is_private
from ..core import AnalysisError, Func, Ob, dotted, kw, need, ob, short, src, walk_no_nested
from ..flow import node_calls, node_defs
from ..runner import Ctx, rule

CLS = "scalar_function.ScalarFunction"
ACCESSORS = ("fun", "grad", "fun_and_grad")


def _methods(ctx) -> Dict[str, Func]:
    out = {f.name: f for q, f in ctx.repo.funcs.items() if q.startswith(CLS + ".") and f.parent is None}
    need(all(a in out for a in ACCESSORS + ("update_x", "_update_fun", "_update_grad", "__init__")),
         "ScalarFunction: accessor / updater methods not found")
    return out


def _closures(ctx) -> Dict[str, List[Func]]:
    init = ctx.repo.func(CLS + ".__init__")
    out: Dict[str, List[Func]] = {}
    for q, f in ctx.repo.funcs.items():
        if f.parent is init:
            out.setdefault(f.name, []).append(f)
    return out


def _is_cache_guard(s: ast.stmt, param: str) -> bool:
    """if not np.array_equal(param, self.x): self.update_x(param)"""
    if not isinstance(s, ast.If) or s.orelse:
        return False
    t = s.test
    if not (isinstance(t, ast.UnaryOp) and isinstance(t.op, ast.Not) and isinstance(t.operand, ast.Call)):
        return False
    c = t.operand
    if dotted(c.func) != "np.array_equal" or len(c.args) != 2 or c.keywords:
        return False
    if {src(c.args[0]), src(c.args[1])} != {param, "self.x"}:
        return False
    calls = [x for b in s.body for x in ast.walk(b) if isinstance(x, ast.Call) and dotted(x.func) == "self.update_x"]
    return len(calls) == 1 and len(calls[0].args) == 1 and src(calls[0].args[0]) == param


def _keyok_flow(ctx, f: Func, p: str, estab: Dict[str, bool]):
    """must-fact 'the cached point self.x equals parameter p' at each node of method f"""
    from ..flow import forward
    cfg = ctx.cfg(f)

    def transfer(n, st):
        if st:
            # a write of self.x that is not a re-key to p would break the fact
            for k, v, how in node_defs(n):
                if k == "self.x":
                    return False
            return True
        for c in node_calls(n):
            d = dotted(c.func) or ""
            if d.startswith("self.") and len(c.args) == 1 and src(c.args[0]) == p:
                m = d[5:]
                if m == "update_x" or estab.get(m):
                    return True
        return False

    def refine(n, lab, st):
        if n.kind == "test" and lab is True and isinstance(n.ast, ast.Call) and dotted(n.ast.func) == "np.array_equal" \
                and len(n.ast.args) == 2 and not n.ast.keywords and {src(n.ast.args[0]), src(n.ast.args[1])} == {p, "self.x"}:
            return True
        return st
    IN, OUT = forward(cfg, False, transfer, lambda a, b: a and b, refine, follow_exc=False)
    return cfg, IN, OUT


@rule("SF1", min_instances=3)
def rule_sf1(ctx: Ctx) -> List[Ob]:
    """every public accessor makes the cached point equal to its argument (exact array comparison, re-key on
    mismatch -- directly or through a helper method that does so on all its paths) before it touches the
    cached value: the fact 'self.x == x' holds at every update call and at every return"""
    ms = _methods(ctx)
    obs: List[Ob] = []
    # helper methods that establish the fact for their single argument on every path to their exit
    estab: Dict[str, bool] = {}
    for name, f in ms.items():
        ps = [x for x in f.params if x != "self"]
        if len(ps) != 1 or name in ACCESSORS or name == "update_x":
            continue
        cfg, IN, OUT = _keyok_flow(ctx, f, ps[0], {})
        exits = [n for n, lab in cfg.pred[cfg.exit]]
        estab[name] = bool(exits) and all(OUT.get(n, False) for n in exits)
    for a in ACCESSORS:
        f = ms[a]
        p = [x for x in f.params if x != "self"]
        need(len(p) == 1, f"ScalarFunction.{a}: expected one argument")
        cfg, IN, OUT = _keyok_flow(ctx, f, p[0], estab)
        users = [n for n in cfg.nodes if any(dotted(c.func) in ("self._update_fun", "self._update_grad") for c in node_calls(n)) or
                 (n.kind == "stmt" and isinstance(n.ast, ast.Return))]
        late = [n for n in users if not IN.get(n, False)]
        obs.append(ob("SF1", "accessor re-keys the cache to its argument before using it", f, f.node, bool(users) and not late,
                      f"'self.x == {p[0]}' holds at all {len(users)} update calls / returns" if users and not late else
                      (f"line {late[0].line}: the cached value can be used / returned while self.x is not known to equal the argument: "
                       "a value cached for another point can be served" if late else "no update call found"),
                      construct=f"{a}: exact-comparison guard"))
    # the other half of "keyed on the last evaluated x": the flags are reset (update_x) ONLY when the point really
    # changed -- a reset at the cached point throws away a value that is still valid and re-evaluates the objective there
    for name, f in ms.items():
        if name == "update_x" or name == "__init__":
            continue
        cfg = ctx.cfg(f)
        for n in cfg.nodes:
            for c in node_calls(n):
                if dotted(c.func) == "self.update_x" and len(c.args) == 1:
                    arg = src(c.args[0])

                    has_test = any(m.kind == "test" and isinstance(m.ast, ast.Call) and dotted(m.ast.func) == "np.array_equal" for m in cfg.nodes)
                    # precise statement: every path to the call passes the FALSE edge of the equality test
                    through_equal = cfg.reachable(cfg.entry, follow_exc=False, edge_ok=lambda a_, b_, lab: not (
                        a_.kind == "test" and isinstance(a_.ast, ast.Call) and dotted(a_.ast.func) == "np.array_equal"
                        and len(a_.ast.args) == 2 and {src(a_.ast.args[0]), src(a_.ast.args[1])} == {arg, "self.x"} and lab is False))
                    okg = has_test and n not in through_equal
                    obs.append(ob("SF1", "the cache is re-keyed (flags reset) only when the requested point differs from the cached one", f, c, okg,
                                  "update_x is reached only through the 'not equal' outcome of the exact comparison" if okg else
                                  "update_x can be reached although the requested point IS the cached one: a still valid value is discarded and the "
                                  "objective re-evaluated at the point it was last evaluated at", construct=f"{name}: update_x({arg}) guard"))
    return obs


@rule("SF2", min_instances=2)
def rule_sf2(ctx: Ctx) -> List[Ob]:
    """every write of the cached point stores a fresh private array (so that a caller modifying its
    own array later cannot change the key) and, outside the constructor, resets both flags in the
    same block"""
    eng = engine(ctx)
    obs: List[Ob] = []
    for q, f in sorted(ctx.repo.funcs.items()):
        if not q.startswith(CLS + "."):
            continue
        fa = eng.fa[q]
        for n in fa.cfg.nodes:
            for k, v, how in node_defs(n):
                if k != "self.x":
                    continue
                og = fa.eval_at(n, v) if v is not None else frozenset()
                fresh = bool(og) and all(o[0] == "fresh" for o in og)
                ok = fresh and how == "bind"
                why = f"value origins {sorted(og)}"
                if f.name != "__init__" and ok:
                    # both flags reset in the same statement list
                    body = None
                    for p in ast.walk(f.node):
                        for fld in ("body", "orelse"):
                            b = getattr(p, fld, None)
                            if isinstance(b, list) and n.ast in b:
                                body = b
                    resets = {src(t) for s in (body or []) if isinstance(s, ast.Assign) and isinstance(s.value, ast.Constant)
                              and s.value.value is False for t in s.targets}
                    ok = {"self.f_updated", "self.g_updated"} <= resets
                    why += f"; flags reset in the same block: {sorted(resets)}"
                obs.append(ob("SF2", "cached point is a fresh copy and re-keying resets both flags", f, n.ast, ok,
                              why + ("" if ok else ": the cache key aliases the caller's array, or a flag survives a re-key (stale value served)")))
    return obs


@rule("SF3", min_instances=5)
def rule_sf3(ctx: Ctx) -> List[Ob]:
    """a flag is set to True only right after the matching evaluation, under `if not flag`; the
    cached value / gradient are written only inside the evaluation closures"""
    ms = _methods(ctx)
    cl = _closures(ctx)
    obs: List[Ob] = []
    for meth, flag, impl in (("_update_fun", "self.f_updated", "self._update_fun_impl"),
                             ("_update_grad", "self.g_updated", "self._update_grad_impl")):
        f = ms[meth]
        cfg = ctx.cfg(f)
        # the evaluation hook by role: the attribute(s) that hold a closure of __init__ writing the cached value / gradient
        init_ = ctx.repo.func(CLS + ".__init__")
        wanted = "self.f" if meth == "_update_fun" else "self.g"
        writers_ = {g_.name for q_, g_ in ctx.repo.funcs.items() if g_.parent is init_ and any(
            isinstance(s_, ast.Assign) and any(src(t_) == wanted for t_ in s_.targets) for s_ in walk_no_nested(g_.node))}
        hooks = {impl}
        for s_ in walk_no_nested(init_.node):
            if isinstance(s_, ast.Assign) and len(s_.targets) == 1 and isinstance(s_.targets[0], ast.Attribute) and src(s_.targets[0].value) == "self" \
                    and isinstance(s_.value, ast.Name) and s_.value.id in writers_:
                hooks.add(f"self.{s_.targets[0].attr}")
        impls = [n for n in cfg.nodes if any(dotted(c.func) in hooks for c in node_calls(n))]
        sets = [n for n in cfg.nodes if any(k == flag for k, v, how in node_defs(n))]
        flag_tests = [n for n in cfg.nodes if n.kind == "test" and src(n.ast) == flag]
        okk, why = len(impls) == 1 and len(sets) == 1 and bool(flag_tests), ""
        if okk:
            # (i) the evaluation runs only when the flag is False
            reach = cfg.reachable(cfg.entry, follow_exc=False, edge_ok=lambda a, b, lab: not (a in flag_tests and lab is False))
            guarded = impls[0] not in reach
            # (ii) the flag is set after the evaluation, (iii) on every path from it
            after = cfg.dominates(impls[0], sets[0]) and isinstance(sets[0].ast, ast.Assign) and \
                isinstance(sets[0].ast.value, ast.Constant) and sets[0].ast.value.value is True
            always = not cfg.exists_path_avoiding(impls[0], cfg.exit, lambda m: m is sets[0])
            okk = guarded and after and always
            why = f"evaluation only when the flag is False: {guarded}; flag set to True after it: {after}; on every path: {always}"
        else:
            why = f"{len(impls)} evaluation call(s), {len(sets)} flag write(s), {len(flag_tests)} flag test(s)"
        obs.append(ob("SF3", f"{flag} is set only right after {impl}() and the evaluation is skipped when it is set", f, f.node, okk, why,
                      construct=f"{meth}: evaluate-once typestate"))
    # nobody outside the wrapper writes its cache (point, value, gradient, flags)
    INTERNAL = {"x", "f", "g", "f_updated", "g_updated", "_update_fun_impl", "_update_grad_impl"}
    for q, g in sorted(ctx.repo.funcs.items()):
        if q.startswith(CLS + "."):
            continue
        for st_ in walk_no_nested(g.node):
            tg = []
            if isinstance(st_, ast.Assign):
                for t in st_.targets:
                    tg += list(t.elts) if isinstance(t, (ast.Tuple, ast.List)) else [t]
            elif isinstance(st_, (ast.AugAssign, ast.AnnAssign)):
                tg = [st_.target]
            for t in tg:
                if isinstance(t, ast.Attribute) and t.attr in INTERNAL and isinstance(t.value, ast.Name) and t.value.id in ("sf", "self.sf"):
                    obs.append(ob("SF3", "the wrapper's cache is written only by the wrapper", g, st_, False,
                                  f"`{short(st_, 60)}` in {g.name} writes the wrapper's `{t.attr}` from outside: the cached value no longer comes "
                                  "from an evaluation at the cached point (and bypasses scaling / counting)"))
            for c in [x for x in walk_no_nested(st_) if isinstance(x, ast.Call)] if isinstance(st_, ast.Expr) else []:
                d = dotted(c.func) or ""
                if d in ("sf.update_x", "sf._update_fun", "sf._update_grad"):
                    obs.append(ob("SF3", "the wrapper's cache is written only by the wrapper", g, st_, False,
                                  f"`{short(st_, 60)}` in {g.name} drives the wrapper's private re-keying from outside"))
    # all writers of the flags = True
    for q, f in sorted(ctx.repo.funcs.items()):
        if not q.startswith(CLS + "."):
            continue
        for s in walk_no_nested(f.node):
            if isinstance(s, ast.Assign) and isinstance(s.value, ast.Constant) and s.value.value is True:
                for t in s.targets:
                    if src(t) in ("self.f_updated", "self.g_updated"):
                        ok = f.name == {"self.f_updated": "_update_fun", "self.g_updated": "_update_grad"}[src(t)]
                        obs.append(ob("SF3", "flag set True only in its updater", f, s, ok,
                                      f"{src(t)} = True in {f.name}", False))
            if isinstance(s, (ast.Assign, ast.AugAssign)):
                tg = s.targets if isinstance(s, ast.Assign) else [s.target]
                for t in tg:
                    if src(t) in ("self.f", "self.g"):
                        ok = f.parent is not None and f.name in ("update_fun", "update_grad") and isinstance(s, ast.Assign)
                        v = s.value
                        if ok and src(t) == "self.f":
                            ok = isinstance(v, ast.Call) and dotted(v.func) == "fun_wrapped" and [src(a) for a in v.args] == ["self.x"]
                        if ok and src(t) == "self.g":
                            ok = isinstance(v, ast.Call) and (
                                (dotted(v.func) == "grad_wrapped" and [src(a) for a in v.args] == ["self.x"]) or
                                (dotted(v.func) or "").endswith("approx_derivative"))
                        obs.append(ob("SF3", "cached value / gradient written only by an evaluation at the cached point", f, s, ok,
                                      f"{src(t)} <- {short(s.value, 60)} in {f.name}"))
    return obs


@rule("SF4", min_instances=3)
def rule_sf4(ctx: Ctx) -> List[Ob]:
    """the scaling factor is applied at return time, never folded into the cache: each accessor
    returns cache * factor (a fresh product)"""
    ms = _methods(ctx)
    obs: List[Ob] = []

    def scaled(e, fld):
        return isinstance(e, ast.BinOp) and isinstance(e.op, ast.Mult) and {src(e.left), src(e.right)} == {fld, "self.scaling_factor"}
    want = {"fun": ["self.f"], "grad": ["self.g"], "fun_and_grad": ["self.f", "self.g"]}
    for a in ACCESSORS:
        f = ms[a]
        rets = [r for r in walk_no_nested(f.node) if isinstance(r, ast.Return)]
        ok = len(rets) == 1
        if ok:
            from ..flow import Expander
            v = Expander(ctx, f).expand_at(rets[0], rets[0].value)
            parts = list(v.elts) if isinstance(v, ast.Tuple) else [v]
            ok = len(parts) == len(want[a]) and all(scaled(p, w) for p, w in zip(parts, want[a]))
        obs.append(ob("SF4", "accessor returns cache * scaling_factor", f, rets[0] if rets else f.node, ok,
                      f"returns {short(rets[0].value) if rets else '?'}", construct=f"{a}: return value"))
    for q, f in sorted(ctx.repo.funcs.items()):
        if not q.startswith(CLS + "."):
            continue
        for s in walk_no_nested(f.node):
            if isinstance(s, (ast.Assign, ast.AugAssign)):
                for t in (s.targets if isinstance(s, ast.Assign) else [s.target]):
                    if src(t) in ("self.f", "self.g") and "scaling_factor" in src(s.value):
                        obs.append(ob("SF4", "the factor is never folded into the cache", f, s, False,
                                      f"{short(s)}: the cached value is scaled when stored and again when returned; "
                                      "a factor changed later is applied to a value cached under the old one"))
    return obs


@rule("SF5", min_instances=3)
def rule_sf5(ctx: Ctx) -> List[Ob]:
    """one increment of the counter per call of the user's function: in each wrapper exactly one
    `+= 1` dominates exactly one user call, outside any loop; the finite-difference gradient counts
    once per computation; nothing else writes the counters"""
    from .exc import usertaint
    ut = usertaint(ctx)
    cl = _closures(ctx)
    obs: List[Ob] = []
    for name, ctr in (("fun_wrapped", "self.nfev"), ("grad_wrapped", "self.ngev")):
        need(name in cl and len(cl[name]) == 1, f"closure {name} not found")
        f = cl[name][0]
        cfg = ctx.cfg(f)
        incs = [n for n in cfg.nodes for k, v, how in node_defs(n) if k == ctr]
        ucalls = ut.direct.get(f.qual, [])
        ok = len(incs) == 1 and len(ucalls) == 1
        why = f"{len(incs)} increment(s) of {ctr}, {len(ucalls)} user call(s)"
        if ok:
            inc = incs[0]
            un = cfg.node_of(ucalls[0])
            ok = isinstance(inc.ast, ast.AugAssign) and isinstance(inc.ast.op, ast.Add) and isinstance(inc.ast.value, ast.Constant) \
                and inc.ast.value.value == 1 and cfg.dominates(inc, un) and not inc.loops and not un.loops and not inc.tries
            why += "; increment by one dominates the call, no loop" if ok else "; the increment does not dominate the call / is in a loop or try"
        obs.append(ob("SF5", f"{ctr} counts every call of the user's function exactly once", f, incs[0].ast if incs else f.node, ok, why,
                      construct=f"{name}: {ctr} += 1 ; user call"))
    fd = [f for f in cl.get("update_grad", []) if any((dotted(c.func) or "").endswith("approx_derivative") for c in walk_no_nested(f.node) if isinstance(c, ast.Call))]
    need(len(fd) == 1, "finite-difference update_grad not found")
    cfg = ctx.cfg(fd[0])
    incs = [n for n in cfg.nodes for k, v, how in node_defs(n) if k == "self.ngev"]
    ok = len(incs) == 1 and isinstance(incs[0].ast, ast.AugAssign) and not incs[0].loops
    obs.append(ob("SF5", "finite-difference gradient counts one gradient computation", fd[0], incs[0].ast if incs else fd[0].node, ok,
                  f"{len(incs)} increment(s) of self.ngev"))
    # other writers
    for q, f in sorted(ctx.repo.funcs.items()):
        if not q.startswith(CLS + "."):
            continue
        for s in walk_no_nested(f.node):
            tg = s.targets if isinstance(s, ast.Assign) else [s.target] if isinstance(s, ast.AugAssign) else []
            for t in tg:
                if src(t) in ("self.nfev", "self.ngev"):
                    legit = (f.name == "__init__" and isinstance(s, ast.Assign) and isinstance(s.value, ast.Constant) and s.value.value == 0) \
                        or (isinstance(s, ast.AugAssign) and f.name in
                            {"self.nfev": ("fun_wrapped",), "self.ngev": ("grad_wrapped", "update_grad")}[src(t)])
                    if not legit:
                        obs.append(ob("SF5", "no other writer of the counters inside the wrapper", f, s, False,
                                      f"{short(s)} in {f.name}"))
    return obs


@rule("SF6", min_instances=4)
def rule_sf6(ctx: Ctx) -> List[Ob]:
    """who-may-call: the raw user objective is called only in fun_wrapped, the raw user gradient
    only in grad_wrapped; both receive a copy of the point; neither escapes (stored, returned or
    passed on) except the gradient mode string used as differencing method"""
    init = ctx.repo.func(CLS + ".__init__")
    obs: List[Ob] = []
    for p, home in (("fun", "fun_wrapped"), ("grad", "grad_wrapped")):
        for n in ast.walk(init.node):
            if isinstance(n, ast.Name) and n.id == p and isinstance(n.ctx, ast.Load):
                # find the enclosing function and the syntactic role
                owner = None
                for q, g in ctx.repo.funcs.items():
                    if (g is init or g.parent is init or (g.parent is not None and g.parent.parent is init)) and \
                            any(x is n for x in walk_no_nested(g.node)):
                        owner = g
                role, ok = "other", False
                for c in ast.walk(init.node):
                    if isinstance(c, ast.Call) and c.func is n:
                        role = "call"
                        a0 = c.args[0] if c.args else None
                        if a0 is not None and owner is not None:
                            from ..flow import Expander
                            a0 = Expander(ctx, owner).expand_at(c, a0)
                        cp = isinstance(a0, ast.Call) and dotted(a0.func) == "np.copy"
                        ok = owner is not None and owner.name == home and cp
                        why = f"called in {owner.name if owner else '?'} with {short(a0)}"
                    elif isinstance(c, ast.Call) and dotted(c.func) == "callable" and c.args and c.args[0] is n:
                        role, ok, why = "callable() test", True, "mode test"
                    elif isinstance(c, ast.Compare) and c.left is n and all(isinstance(o, (ast.In, ast.NotIn)) for o in c.ops):
                        role, ok, why = "membership test", True, "mode test"
                    elif isinstance(c, ast.Dict) and any(v is n and isinstance(k, ast.Constant) and k.value == "method"
                                                         for k, v in zip(c.keys, c.values)):
                        role, ok, why = "differencing method", p == "grad", "stored as options['method'] (a mode string under `grad in FD_METHODS`)"
                    elif isinstance(c, ast.Call) and (dotted(c.func) or "").endswith("approx_derivative") and \
                            any(k.arg == "method" and k.value is n for k in c.keywords):
                        role, ok, why = "differencing method", p == "grad", "passed as method= of the differencer (a mode string in the finite-difference branch)"
                    elif isinstance(c, ast.Assign) and c.value is n:
                        t = c.targets[0]
                        if isinstance(t, ast.Subscript) and isinstance(t.slice, ast.Constant) and t.slice.value == "method":
                            role, ok, why = "differencing method", p == "grad", "stored as options['method'] (a mode string under `grad in FD_METHODS`)"
                        else:
                            role, ok, why = "stored", False, f"stored into {short(t)}: the raw callable escapes the counting wrapper"
                if role == "other":
                    why = "referenced outside a call / mode test: the raw callable escapes the counting wrapper"
                obs.append(ob("SF6", f"raw user `{p}` is only called in {home}", owner or init, n, ok, why,
                              construct=f"{p} @{owner.name if owner else '?'}:{role}"))
    return obs


@rule("SF7", min_instances=1)
def rule_sf7(ctx: Ctx) -> List[Ob]:
    """the differencer receives the counting wrapper, x0 = cached point, f0 = cached value, and the
    cached value is brought up to date before it (value reused, stencil evaluations counted)"""
    obs: List[Ob] = []
    for q, f in sorted(ctx.repo.funcs.items()):
        if not q.startswith(CLS + "."):
            continue
        for c in walk_no_nested(f.node):
            if isinstance(c, ast.Call) and (dotted(c.func) or "").endswith("approx_derivative"):
                cfg = ctx.cfg(f)
                n = cfg.node_of(c)
                a0 = c.args[0] if c.args else kw(c, "fun")
                x0 = c.args[1] if len(c.args) > 1 else kw(c, "x0")
                f0 = kw(c, "f0")
                upd = [m for m in cfg.nodes if any(dotted(cc.func) == "self._update_fun" for cc in node_calls(m))]
                dom = any(cfg.dominates(m, n) and m is not n for m in upd)
                ok = isinstance(a0, ast.Name) and a0.id == "fun_wrapped" and src(x0) == "self.x" and f0 is not None and src(f0) == "self.f" and dom
                obs.append(ob("SF7", "differencer gets the counting wrapper, the cached point and the cached value", f, c, ok,
                              f"fun <- {short(a0)}, x0 <- {short(x0)}, f0 <- {short(f0)}, self._update_fun() before it: {dom}"))
    return obs


SF_PUBLIC = {
    "fun": "evaluator", "grad": "evaluator", "fun_and_grad": "evaluator",
    "nfev": "counter (carried by checkpoints)", "ngev": "counter (carried by checkpoints)", "nhev": "counter",
    "scaling_factor": "constant of the call, recomputed from the arguments at a restart", "n": "problem size",
}


@rule("SFREAD", min_instances=10)
def rule_sfread(ctx: Ctx) -> List[Ob]:
    """who-may-read: outside scalar_function.py the solver reads from the wrapper only its evaluators,
    its counters and the scaling factor.  Everything else the wrapper holds (memoised point / value /
    gradient, flags, lowest value seen) is evaluation history that a checkpoint does not carry and that a
    restart re-creates empty, so no decision of the solver may depend on it (C06, C07)."""
    obs: List[Ob] = []
    for q, f in ctx.repo.funcs.items():
        if q.startswith("scalar_function."):
            continue
        names: Set[str] = set()
        a = f.node.args
        for p in a.posonlyargs + a.args + a.kwonlyargs:
            if p.annotation is not None and "ScalarFunction" in src(p.annotation):
                names.add(p.arg)
        for s in walk_no_nested(f.node):
            if isinstance(s, (ast.Assign, ast.AnnAssign)) and isinstance(s.value, ast.Call):
                callee = ctx.repo.resolve_callee(f, s.value)
                cq = callee.qual if isinstance(callee, Func) else (dotted(s.value.func) or "")
                if cq.split(".")[-1] in ("prepare_scalar_function", "ScalarFunction", "__init__") and \
                        ("ScalarFunction" in cq or "prepare_scalar_function" in cq):
                    for t in (s.targets if isinstance(s, ast.Assign) else [s.target]):
                        if isinstance(t, ast.Name):
                            names.add(t.id)
        if not names:
            continue
        for e in walk_no_nested(f.node):
            if isinstance(e, ast.Attribute) and isinstance(e.value, ast.Name) and e.value.id in names:
                # restoring the counters from a checkpoint and installing the scaling factor are writes governed by CNT / SCALER
                ok = e.attr in SF_PUBLIC and (not isinstance(e.ctx, (ast.Store, ast.Del)) or
                                              (isinstance(e.ctx, ast.Store) and e.attr in ("nfev", "ngev", "nhev", "scaling_factor")))
                obs.append(ob("SFREAD", "only evaluators / counters / scaling factor of the wrapper are used by the solver", f, e, ok,
                              (f"{SF_PUBLIC[e.attr]}" if ok else
                               (f"writes wrapper field `{e.attr}` from outside the wrapper" if isinstance(e.ctx, (ast.Store, ast.Del)) else
                                f"reads `{src(e)}`: evaluation history of the wrapper, not part of a checkpoint -- a restarted run cannot reproduce it")),
                              False, construct=f"{f.qual}: {src(e)}"))
            elif isinstance(e, ast.Call) and dotted(e.func) in ("getattr", "vars", "setattr") and e.args and \
                    isinstance(e.args[0], ast.Name) and e.args[0].id in names:
                k = e.args[1].value if len(e.args) > 1 and isinstance(e.args[1], ast.Constant) else None
                ok = dotted(e.func) == "getattr" and k in SF_PUBLIC
                obs.append(ob("SFREAD", "only evaluators / counters / scaling factor of the wrapper are used by the solver", f, e, ok,
                              f"reflective access `{short(e)}`", False, construct=f"{f.qual}: {short(e)}"))
    return obs


@rule("EVALPT", min_instances=2)
def rule_evalpt(ctx: Ctx) -> List[Ob]:
    """where the objective is evaluated: the counting wrappers are called by the package at the cached point self.x only
    (which BOX proves inside the box), and the only other use of the objective wrapper is as the function handed to SciPy's
    approx_derivative (whose stencil FDB confines to the box through `bounds`).  A hand-made difference loop, or any other
    call at a computed point, evaluates the user's function where nothing proves feasibility"""
    init = ctx.repo.func(CLS + ".__init__")
    obs: List[Ob] = []
    parents = {id(c): p for p in ast.walk(init.node) for c in ast.iter_child_nodes(p)}
    for wname in ("fun_wrapped", "grad_wrapped"):
        defs = [d for d in ast.walk(init.node) if isinstance(d, ast.FunctionDef) and d.name == wname]
        if not defs:
            if wname == "fun_wrapped":
                raise AnalysisError("EVALPT: closure fun_wrapped not found")
            continue
        for n in ast.walk(init.node):
            if not (isinstance(n, ast.Name) and n.id == wname and isinstance(n.ctx, ast.Load)):
                continue
            p = parents.get(id(n))
            if isinstance(p, ast.Call) and p.func is n:
                ok = len(p.args) == 1 and not p.keywords and src(p.args[0]) == "self.x"
                obs.append(ob("EVALPT", "the counting wrapper is called at the cached point only", init, p, ok,
                              f"{short(p, 60)}" + ("" if ok else ": evaluated at a point other than self.x -- nothing confines it to the box"),
                              construct=f"{wname}({short(p.args[0], 30) if p.args else ''})"))
            elif isinstance(p, ast.Call) and (dotted(p.func) or "").split(".")[-1] == "approx_derivative" and p.args and p.args[0] is n:
                obs.append(ob("EVALPT", "the objective wrapper is otherwise only handed to approx_derivative", init, p, True,
                              f"{short(p, 70)}", construct=f"approx_derivative({wname}, ..)"))
            else:
                obs.append(ob("EVALPT", "the objective wrapper is otherwise only handed to approx_derivative", init, p if p is not None else n, False,
                              f"`{wname}` is used in `{short(p, 70) if p is not None else wname}`: it can be called there at arbitrary points",
                              construct=f"{wname} in {short(p, 40) if p is not None else '?'}"))
    return obs
