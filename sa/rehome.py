"""Cross-module normalisation, applied to the parsed modules before anything else (T25).

The rules are anchored in functions by module (`main.is_f0_target_reached`, `base.projgr`, ...: tables.KNOWN_FUNCS), and the
inliner works module by module.  A maintainer who *moves* a function to another module of the package (and imports it where
it is used), or who extracts a helper into another module, changes neither behaviour nor any property -- so before the
per-module passes run:

  A. a module-level function h of module x that module m imports (`from .x import h [as a]`) and that is not one of the known
     functions *at home in x* is copied into m under the imported name (the import of h goes away): a known function that
     was moved out of m is back where the rules look for it, and a helper extracted into another module can be inlined;
  B. a known function `m.f` that m neither defines nor imports, but exactly one other module defines, is copied into m.

A function is only copied when every global name it reads means the same thing in the target module: bound by the same
import there (added if the name is free there), or defined in x and imported from x (added likewise).  The original is
removed from x when nothing else in x mentions it.  Anything else is left alone, and the rules then fail closed on the
missing anchor as before."""
from __future__ import annotations

import ast
import builtins
import copy
from typing import Dict, List, Optional, Set, Tuple

PKG = "lbfgsb"


def _top(tree: ast.Module) -> Dict[str, ast.stmt]:
    out: Dict[str, ast.stmt] = {}
    for s in tree.body:
        if isinstance(s, (ast.FunctionDef, ast.ClassDef)):
            out[s.name] = s
        elif isinstance(s, ast.Assign) and len(s.targets) == 1 and isinstance(s.targets[0], ast.Name):
            out[s.targets[0].id] = s
        elif isinstance(s, ast.AnnAssign) and isinstance(s.target, ast.Name) and s.value is not None:
            out[s.target.id] = s
    return out


def _sibling(node: ast.ImportFrom, mods: Set[str]) -> Optional[str]:
    """the sibling module an ImportFrom refers to (`from .x import`, `from lbfgsb.x import`), else None"""
    if node.level == 1 and node.module in mods:
        return node.module
    if node.level == 0 and node.module and node.module.startswith(PKG + ".") and node.module[len(PKG) + 1:] in mods:
        return node.module[len(PKG) + 1:]
    return None


def _bindings(tree: ast.Module, mods: Set[str]) -> Dict[str, tuple]:
    """local name -> what it is bound to by a module-level import"""
    out: Dict[str, tuple] = {}
    for s in tree.body:
        if isinstance(s, ast.Import):
            for a in s.names:
                if a.asname:
                    out[a.asname] = ("module", a.name)
                else:
                    out[a.name.split(".")[0]] = ("module", a.name.split(".")[0])
        elif isinstance(s, ast.ImportFrom):
            sib = _sibling(s, mods)
            for a in s.names:
                if a.name == "*":
                    continue
                out[a.asname or a.name] = ("sibling", sib, a.name) if sib else ("from", "." * s.level + (s.module or ""), a.name)
    return out


def _free_globals(fn: ast.FunctionDef) -> Set[str]:
    bound: Set[str] = set()
    for n in ast.walk(fn):
        if isinstance(n, ast.arg):
            bound.add(n.arg)
        elif isinstance(n, ast.Name) and isinstance(n.ctx, (ast.Store, ast.Del)):
            bound.add(n.id)
        elif isinstance(n, (ast.FunctionDef, ast.ClassDef)) and n is not fn:
            bound.add(n.name)
        elif isinstance(n, ast.ExceptHandler) and n.name:
            bound.add(n.name)
        elif isinstance(n, (ast.Global, ast.Nonlocal)):
            return {"<global statement>"}
    loads = {n.id for n in ast.walk(fn) if isinstance(n, ast.Name) and isinstance(n.ctx, ast.Load)}
    # decorators, annotations and defaults are evaluated in the defining module too
    return {g for g in loads - bound if not hasattr(builtins, g)}


def _import_stmt(b: tuple, local: str, src_mod: str) -> Optional[ast.stmt]:
    if b[0] == "module":
        return ast.Import(names=[ast.alias(name=b[1], asname=None if local == b[1] else local)])
    if b[0] == "sibling":
        return ast.ImportFrom(module=f"{PKG}.{b[1]}", names=[ast.alias(name=b[2], asname=None if local == b[2] else local)], level=0)
    if b[0] == "from":
        mod = b[1].lstrip(".")
        lvl = len(b[1]) - len(mod)
        return ast.ImportFrom(module=mod or None, names=[ast.alias(name=b[2], asname=None if local == b[2] else local)], level=lvl)
    return None


def _plan_copy(h: ast.FunctionDef, x: str, m: str, trees: Dict[str, ast.Module], mods: Set[str], known: Set[str] = frozenset()) -> Optional[List[ast.stmt]]:
    """the imports to add to m so that h means the same there; None if it cannot be made to"""
    bx, bm = _bindings(trees[x], mods), _bindings(trees[m], mods)
    tx, tm = _top(trees[x]), _top(trees[m])
    add: List[ast.stmt] = []
    for g in sorted(_free_globals(h)):
        if g == "<global statement>":
            return None
        if g == h.name:
            continue                      # recursion: refers to the copy
        if g in bx:
            want = bx[g]
            if want[0] == "sibling" and want[1] == m:
                # x imports g from m itself: in m the name must be m's own definition
                if want[2] in tm and g == want[2]:
                    continue
                return None
        elif g in tx:
            want = ("sibling", x, g)
        else:
            continue                      # not a module-level name of x (a builtin that is not one, or unbound): leave
        if g in bm:
            if bm[g] != want:
                return None
        elif g in tm:
            if g in tx and f"{m}.{g}" in known and isinstance(tm[g], ast.FunctionDef) and isinstance(tx[g], ast.FunctionDef) \
                    and ast.dump(tm[g]) == ast.dump(tx[g]):
                continue                  # the same known function, already put back in m
            if g in tx and isinstance(tm[g], (ast.Assign, ast.AnnAssign)) and isinstance(tx[g], (ast.Assign, ast.AnnAssign)) \
                    and ast.dump(tm[g].value) == ast.dump(tx[g].value) \
                    and not any(isinstance(n_, (ast.Name, ast.Call, ast.Attribute)) for n_ in ast.walk(tm[g].value)):
                continue                  # the same literal constant on both sides
            return None                   # m defines something else under that name
        else:
            st = _import_stmt(want, g, x)
            if st is None:
                return None
            add.append(st)
    return add


def _insert(tree: ast.Module, imports: List[ast.stmt], fn: ast.FunctionDef) -> None:
    # after the last module-level import (and the module docstring)
    at = 0
    for i, s in enumerate(tree.body):
        if isinstance(s, (ast.Import, ast.ImportFrom)) or (i == 0 and isinstance(s, ast.Expr) and isinstance(s.value, ast.Constant)):
            at = i + 1
    for k, st in enumerate(imports + [fn]):
        ast.copy_location(st, tree.body[at - 1] if at else fn)
        ast.fix_missing_locations(st)
        tree.body.insert(at + k, st)


def _mentions(tree: ast.Module, name: str, but: ast.AST) -> bool:
    skip = {id(n) for n in ast.walk(but)}
    for n in ast.walk(tree):
        if id(n) in skip:
            continue
        if isinstance(n, ast.Name) and n.id == name:
            return True
        if isinstance(n, ast.Constant) and n.value == name:      # __all__
            return True
    return False


def _redirect(trees: Dict[str, ast.Module], mods: Set[str], f: str, x: str, m: str) -> None:
    """everybody who imports f from its new place x gets it from its home m again"""
    for m2 in sorted(trees):
        if m2 in (m, x):
            continue
        for s2 in list(trees[m2].body):
            if isinstance(s2, ast.ImportFrom) and _sibling(s2, mods) == x:
                for a2 in list(s2.names):
                    if a2.name == f:
                        s2.names.remove(a2)
                        new_imp = ast.ImportFrom(module=f"{PKG}.{m}", names=[ast.alias(name=f, asname=a2.asname)], level=0)
                        ast.copy_location(new_imp, s2)
                        ast.fix_missing_locations(new_imp)
                        trees[m2].body.insert(trees[m2].body.index(s2), new_imp)
                if not s2.names:
                    trees[m2].body.remove(s2)


def rehome(trees: Dict[str, ast.Module], known: Set[str]) -> Dict[str, int]:
    stats = {"T25 function re-homed": 0}
    mods = set(trees)
    for _round in range(3):
        changed = False
        # A: imported functions that are not known at home
        for m in sorted(trees):
            tree = trees[m]
            for s in list(tree.body):
                if not isinstance(s, ast.ImportFrom):
                    continue
                x = _sibling(s, mods)
                if x is None or x == m:
                    continue
                for a in list(s.names):
                    h = _top(trees[x]).get(a.name)
                    local = a.asname or a.name
                    if isinstance(h, (ast.Assign, ast.AnnAssign)) and local == a.name and local not in _top(tree) and h.value is not None \
                            and not any(isinstance(n_, (ast.Name, ast.Call, ast.Attribute)) for n_ in ast.walk(h.value)) \
                            and sum(1 for s_ in ast.walk(trees[x]) if isinstance(s_, ast.Name) and s_.id == a.name and isinstance(s_.ctx, ast.Store)) == 1:
                        # a module constant (a literal bound once) that moved: the importing module gets its own copy
                        cst = copy.deepcopy(h)
                        s.names.remove(a)
                        if not s.names:
                            tree.body.remove(s)
                        at_ = 0
                        for i_, s_ in enumerate(tree.body):
                            if isinstance(s_, (ast.Import, ast.ImportFrom)) or (i_ == 0 and isinstance(s_, ast.Expr) and isinstance(s_.value, ast.Constant)):
                                at_ = i_ + 1
                        tree.body.insert(at_, cst)
                        stats["T25 function re-homed"] += 1
                        changed = True
                        continue
                    if not isinstance(h, ast.FunctionDef) or f"{x}.{a.name}" in known or local in _top(tree):
                        continue
                    if any(q.endswith("." + a.name) and q.count(".") == 1 and q.split(".")[0] != m for q in known):
                        continue          # a known function of another module that was moved: B puts it back there
                    if h.decorator_list:
                        continue
                    plan = _plan_copy(h, x, m, trees, mods, known)
                    if plan is None:
                        continue
                    c = copy.deepcopy(h)
                    if local != h.name:
                        for n in ast.walk(c):
                            if isinstance(n, ast.Name) and n.id == h.name:
                                n.id = local
                        c.name = local
                    s.names.remove(a)
                    if not s.names:
                        tree.body.remove(s)
                    _insert(tree, plan, c)
                    if f"{m}.{local}" in known and local == h.name:
                        _redirect(trees, mods, h.name, x, m)
                    still = any(b == ("sibling", x, h.name) for m2 in trees if m2 != x for b in _bindings(trees[m2], mods).values())
                    if not still and not _mentions(trees[x], h.name, h) and h in trees[x].body:
                        trees[x].body.remove(h)
                    stats["T25 function re-homed"] += 1
                    changed = True
        # B: known functions missing at home
        for q in sorted(known):
            parts = q.split(".")
            if len(parts) != 2 or parts[0] not in trees:
                continue
            m, f = parts
            if f in _top(trees[m]) or f in _bindings(trees[m], mods):
                continue
            homes = [x for x in sorted(trees) if x != m and isinstance(_top(trees[x]).get(f), ast.FunctionDef)]
            if len(homes) != 1:
                continue
            x = homes[0]
            h = _top(trees[x])[f]
            if f"{x}.{f}" in known or h.decorator_list:
                continue
            plan = _plan_copy(h, x, m, trees, mods, known)
            if plan is None:
                continue
            _insert(trees[m], plan, copy.deepcopy(h))
            _redirect(trees, mods, f, x, m)
            if not _mentions(trees[x], f, h) and h in trees[x].body:
                trees[x].body.remove(h)
            stats["T25 function re-homed"] += 1
            changed = True
        if not changed:
            break
    return stats
