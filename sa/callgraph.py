"""sa.callgraph -- resolved intra-package call graph, user-callable taint (E11)."""
from __future__ import annotations

import ast
from typing import Dict, List, Optional, Set, Tuple

from .core import AnalysisError, Func, Repo, bind_args, dotted, walk_no_nested

# parameters of the public entry point through which user code enters
ENTRY = "main.minimize_lbfgsb"
USER_PARAMS = ("fun", "jac", "callback", "update_fun_def", "gradient_scaler", "ftarget", "gtol")


class CallGraph:
    def __init__(self, repo: Repo):
        self.repo = repo
        # class attribute -> nested functions stored into it (self._update_fun_impl = update_fun)
        self.attr_funcs: Dict[Tuple[str, str], Set[str]] = {}
        for f in repo.funcs.values():
            if f.cls is None:
                continue
            for n in walk_no_nested(f.node):
                if isinstance(n, ast.Assign) and isinstance(n.value, ast.Name):
                    for t in n.targets:
                        d = dotted(t)
                        if d and d.startswith("self."):
                            for q, g in repo.funcs.items():
                                if g.name == n.value.id and g.parent is not None and \
                                        (g.parent is f or g.parent.qual.split("#")[0] == f.qual.split("#")[0]):
                                    self.attr_funcs.setdefault((f"{f.module.name}.{f.cls}", d[5:]), set()).add(q)
        self.calls: Dict[str, List[Tuple[ast.Call, List[str]]]] = {}
        for q, f in repo.funcs.items():
            out = []
            for c in walk_no_nested(f.node):
                if isinstance(c, ast.Call):
                    out.append((c, self.targets(f, c)))
            self.calls[q] = out

    def targets(self, f: Func, c: ast.Call) -> List[str]:
        """package functions a call may reach ([] = external / unknown)"""
        r = self.repo.resolve_callee(f, c)
        if r is None:
            return []
        base = r.split("#")[0]
        hits = [q for q in self.repo.funcs if q.split("#")[0] == base]
        if hits:
            return hits
        d = dotted(c.func)
        if d and d.startswith("self.") and f.cls:
            key = (f"{f.module.name}.{f.cls}", d[5:])
            if key in self.attr_funcs:
                return sorted(self.attr_funcs[key])
        return []

    def callee_func(self, q: str) -> Func:
        return self.repo.funcs[q]


def _local_copies(f: Func, seeds: Set[str]) -> Set[str]:
    """names of f that may hold a value taken from a seed name through plain
    copies (`g = jac`, `g = a if c else b`), flow-insensitively."""
    out = set(seeds)
    changed = True
    while changed:
        changed = False
        for n in walk_no_nested(f.node):
            tgt, val = None, None
            if isinstance(n, ast.Assign) and len(n.targets) == 1 and isinstance(n.targets[0], ast.Name):
                tgt, val = n.targets[0].id, n.value
            elif isinstance(n, ast.AnnAssign) and isinstance(n.target, ast.Name) and n.value is not None:
                tgt, val = n.target.id, n.value
            if tgt is None or tgt in out:
                continue
            srcs: List[ast.expr] = [val]
            if isinstance(val, ast.IfExp):
                srcs = [val.body, val.orelse]
            # containers of callables: (a, b), [a], tuple(t), list(t), t + (a,)
            more: List[ast.expr] = []
            for s in srcs:
                if isinstance(s, (ast.Tuple, ast.List, ast.Set)):
                    more += list(s.elts)
                elif isinstance(s, ast.Call) and isinstance(s.func, ast.Name) and s.func.id in ("tuple", "list", "iter", "reversed", "sorted", "deque") and s.args:
                    more.append(s.args[0])
                elif isinstance(s, ast.BinOp) and isinstance(s.op, ast.Add):
                    more += [s.left, s.right]
            srcs = srcs + more
            if any(isinstance(s, ast.Name) and s.id in out for s in srcs):
                out.add(tgt)
                changed = True
        # items of a container of callables
        for n in walk_no_nested(f.node):
            gens = [(n.target, n.iter)] if isinstance(n, ast.For) else \
                [(g.target, g.iter) for g in n.generators] if isinstance(n, (ast.ListComp, ast.SetComp, ast.GeneratorExp, ast.DictComp)) else []
            for tg, it in gens:
                if any(isinstance(x, ast.Name) and x.id in out for x in ast.walk(it)):
                    for t in ast.walk(tg):
                        if isinstance(t, ast.Name) and t.id not in out:
                            out.add(t.id)
                            changed = True
    return out


class UserTaint:
    """which local names may hold a user-supplied callable, which call sites may
    run user code, and the set U of functions that may (transitively) do so."""

    def __init__(self, repo: Repo, cg: CallGraph):
        self.repo, self.cg = repo, cg
        if ENTRY not in repo.funcs:
            raise AnalysisError(f"anchor function {ENTRY} not found")
        entry = repo.funcs[ENTRY]
        missing = [p for p in USER_PARAMS if p not in entry.params]
        if missing:
            raise AnalysisError(f"user-callable parameters {missing} vanished from {ENTRY}")
        self.names: Dict[str, Set[str]] = {ENTRY: set(USER_PARAMS)}
        self.ret_taint: Set[str] = set()
        changed = True
        while changed:
            changed = False
            for q in list(self.names):
                f = repo.funcs[q]
                T = _local_copies(f, self.names[q])
                if T != self.names[q]:
                    self.names[q] = T
                    changed = True
                # closures see the enclosing names they do not shadow
                for g in repo.funcs.values():
                    if g.parent is not None and g.parent.qual == q:
                        inh = {t for t in T if t not in g.params}
                        if not inh <= self.names.get(g.qual, set()):
                            self.names.setdefault(g.qual, set()).update(inh)
                            changed = True
                for c, tgts in cg.calls[q]:
                    for tq in tgts:
                        g = repo.funcs[tq]
                        try:
                            b = bind_args(c, g.node, skip_self=g.cls is not None and g.parent is None)
                        except AnalysisError:
                            continue
                        for p, e in b.items():
                            if isinstance(e, ast.Name) and e.id in T and p in g.params:
                                if p not in self.names.get(tq, set()):
                                    self.names.setdefault(tq, set()).add(p)
                                    changed = True
                # a helper that hands a user callable (or a container of them) back: its result is one
                if any(isinstance(r, ast.Return) and r.value is not None and any(isinstance(x, ast.Name) and x.id in T for x in ast.walk(r.value))
                       for r in walk_no_nested(f.node)):
                    if q not in self.ret_taint:
                        self.ret_taint.add(q)
                        changed = True
            for q2, f2 in repo.funcs.items():
                for st in walk_no_nested(f2.node):
                    if isinstance(st, (ast.Assign, ast.AnnAssign)) and isinstance(getattr(st, "value", None), ast.Call):
                        tg_ = st.targets[0] if isinstance(st, ast.Assign) and len(st.targets) == 1 else getattr(st, "target", None)
                        if isinstance(tg_, ast.Name) and any(t in self.ret_taint for c2, ts in cg.calls[q2] if c2 is st.value for t in ts):
                            if tg_.id not in self.names.get(q2, set()):
                                self.names.setdefault(q2, set()).add(tg_.id)
                                changed = True
        # direct user call sites
        self.direct: Dict[str, List[ast.Call]] = {}
        for q, T in self.names.items():
            f = repo.funcs[q]
            for c in walk_no_nested(f.node):
                if isinstance(c, ast.Call) and isinstance(c.func, ast.Name) and c.func.id in T:
                    self.direct.setdefault(q, []).append(c)
        # U: least fixpoint
        self.U: Set[str] = set(self.direct)
        self.sites: Dict[str, List[Tuple[ast.Call, str]]] = {}
        changed = True
        while changed:
            changed = False
            for q, f in repo.funcs.items():
                sites: List[Tuple[ast.Call, str]] = [(c, "direct call of user callable " + c.func.id)
                                                    for c in self.direct.get(q, [])]
                uobjs = self._uobjects(f)
                for c, tgts in cg.calls[q]:
                    hit = [t for t in tgts if t in self.U]
                    if hit:
                        sites.append((c, "calls " + hit[0] + " which may run user code"))
                        continue
                    if not tgts:
                        # a function of U handed to an external callee may be called by it
                        for a in list(c.args) + [k.value for k in c.keywords]:
                            if isinstance(a, ast.Name):
                                fq = self._local_func(f, a.id)
                                if fq and fq in self.U:
                                    sites.append((c, f"external callee receives {a.id}, which may run user code"))
                                    break
                        else:
                            d = dotted(c.func)
                            if d and d.split(".")[0] in uobjs and "." in d:
                                sites.append((c, f"method of {d.split('.')[0]}, an object built from functions that may run user code"))
                self.sites[q] = sites
                if sites and q not in self.U:
                    self.U.add(q)
                    changed = True

    def _local_func(self, f: Func, name: str) -> Optional[str]:
        g: Optional[Func] = f
        while g is not None:
            for q, h in self.repo.funcs.items():
                if h.name == name and h.parent is not None and h.parent.qual == g.qual:
                    return q
            g = g.parent
        return None

    def _uobjects(self, f: Func) -> Set[str]:
        out: Set[str] = set()
        for n in walk_no_nested(f.node):
            if isinstance(n, ast.Assign) and isinstance(n.value, ast.Call) and \
                    len(n.targets) == 1 and isinstance(n.targets[0], ast.Name):
                for a in list(n.value.args) + [k.value for k in n.value.keywords]:
                    if isinstance(a, ast.Name):
                        fq = self._local_func(f, a.id)
                        if fq and (fq in self.U or fq in self.direct):
                            out.add(n.targets[0].id)
        return out
