"""sa.alias -- E3: ownership / may-alias dataflow with interprocedural summaries.

Abstract value of a name (or short attribute chain) = set of *origins*:
  ("param", path)     object owned by the caller of the function under analysis
  ("fresh", line,col) object created at this site (private to the call)
  ("default", f.p)    the default-argument object of parameter p (shared by all calls!)
  ("global", name)    module-level object
  ("free", name)      variable of an enclosing function (closures)
  ("scalar",)         immutable scalar / None / string
Container elements are tracked under the key "<name>[]".
"""
from __future__ import annotations

import ast
from typing import Dict, FrozenSet, List, Optional, Set, Tuple, Union

from . import tables as T
from .callgraph import CallGraph
from .cfg import CFG, Node
from .core import AnalysisError, Func, Repo, bind_args, dotted, short, src, walk_no_nested
from .flow import base_key, forward, node_defs, node_exprs, target_keys

Origin = tuple
OSet = FrozenSet[Origin]
SCALAR: OSet = frozenset([("scalar",)])
EMPTY: OSet = frozenset()


class TupleVal:
    def __init__(self, elts: List[Union[OSet, "TupleVal"]]):
        self.elts = elts

    def flat(self) -> OSet:
        out: Set[Origin] = set()
        for e in self.elts:
            out |= e.flat() if isinstance(e, TupleVal) else e
        return frozenset(out)


def flat(v) -> OSet:
    return v.flat() if isinstance(v, TupleVal) else v


def is_private(o: Origin) -> bool:
    return o[0] in ("fresh", "scalar")


def root(o: Origin) -> str:
    return o[1].split(".")[0].split("[")[0] if len(o) > 1 and isinstance(o[1], str) else ""


class Summary:
    def __init__(self):
        self.ret = None                     # OSet | TupleVal | None
        self.mutates: Set[str] = set()      # parameter roots that may be written
        self.stores: Set[Tuple[str, str]] = set()   # (container param, value param)
        self.mut_free: Set[str] = set()     # free variables whose object may be written

    def sig(self):
        r = self.ret
        if isinstance(r, TupleVal):
            r = ("T",) + tuple(sorted(flat(e)) for e in r.elts)
        elif r is not None:
            r = tuple(sorted(r))
        return (r, tuple(sorted(self.mutates)), tuple(sorted(self.stores)), tuple(sorted(self.mut_free)))


class Mutation:
    def __init__(self, node: Node, site: ast.AST, origins: OSet, how: str, target: str):
        self.node, self.site, self.origins, self.how, self.target = node, site, origins, how, target


class FuncAlias:
    def __init__(self, eng: "AliasEngine", f: Func):
        self.eng, self.f = eng, f
        self.cfg: CFG = eng.ctx.cfg(f)
        self.mutations: List[Mutation] = []
        self.returns: List[Tuple[Node, object]] = []
        self.call_effects: List[Tuple[Node, ast.Call, str]] = []
        self.unclassified: Set[str] = set()
        self.stores_into: List[Tuple[Node, str, OSet, ast.AST]] = []   # (node, container key, value origins, site)
        self._collect = False
        init: Dict[str, OSet] = {}
        dflt = f.defaults()
        for a in f.node.args.posonlyargs + f.node.args.args + f.node.args.kwonlyargs:
            ann = src(a.annotation) if a.annotation is not None else ""
            o: Set[Origin] = set()
            if ann in T.SCALAR_ANNOTATIONS:
                o.add(("scalar",))
            else:
                o.add(("param", a.arg))
            d = dflt.get(a.arg)
            if d is not None and not _immutable_literal(d):
                o.add(("default", f"{f.qual}.{a.arg}"))
            init[a.arg] = frozenset(o)
            if not ann.startswith(("float", "int", "bool", "str")):
                init[a.arg + "[]"] = frozenset([("param", a.arg + "[]")]) if ann.startswith(("Deque", "List", "Sequence", "Tuple")) else EMPTY
                if init[a.arg + "[]"] == EMPTY:
                    del init[a.arg + "[]"]
        if f.node.args.vararg:
            init[f.node.args.vararg.arg] = frozenset([("param", f.node.args.vararg.arg)])
        if f.node.args.kwarg:
            init[f.node.args.kwarg.arg] = frozenset([("param", f.node.args.kwarg.arg)])
        self.init = init
        self.IN, self.OUT = forward(self.cfg, init, self._transfer, _join)
        # second pass: collect mutations / returns with the fixpoint states
        self._collect = True
        for n in self.cfg.nodes:
            if n in self.IN:
                self._transfer(n, self.IN[n])
        self._collect = False

    # ------------------------------------------------------------------ eval
    def eval_at(self, n: Node, e: ast.AST) -> OSet:
        return flat(self.eval(e, self.IN.get(n, self.init)))

    def lookup(self, name: str, st) -> OSet:
        if name in st:
            return st[name]
        g = self.f.parent
        while g is not None:
            if name in g.params or any(isinstance(x, ast.Name) and x.id == name and isinstance(x.ctx, ast.Store)
                                       for x in walk_no_nested(g.node)) or \
                    any(isinstance(x, ast.FunctionDef) and x.name == name for x in walk_no_nested(g.node)):
                return frozenset([("free", name)])
            g = g.parent
        if name in ("None", "True", "False"):
            return SCALAR
        return frozenset([("global", name)])

    def eval(self, e: ast.AST, st):
        if isinstance(e, ast.Constant):
            return SCALAR
        if isinstance(e, ast.Name):
            return self.lookup(e.id, st)
        if isinstance(e, ast.Attribute):
            d = dotted(e)
            if d and d in st:
                return st[d]
            if e.attr in T.SCALAR_FIELDS:
                return SCALAR
            if isinstance(e.value, ast.Name) and e.value.id not in st and \
                    e.value.id in self.f.module.imports and e.attr in T.MODULE_CONSTANTS:
                return SCALAR   # np.inf, np.pi, np.float64 ...
            base = flat(self.eval(e.value, st))
            if e.attr in ("T", "flat", "real", "imag"):
                return base
            out = set()
            for o in base:
                if o[0] in ("param", "free", "global"):
                    out.add((o[0], o[1] + "." + e.attr))
                else:
                    out.add(o)
            return frozenset(out)
        if isinstance(e, ast.Subscript):
            k = dotted(e.value)
            if k and (k + "[]") in st:
                return st[k + "[]"]
            base = flat(self.eval(e.value, st))
            return frozenset(o for o in base)
        if isinstance(e, (ast.BinOp, ast.UnaryOp, ast.Compare, ast.JoinedStr, ast.ListComp,
                          ast.GeneratorExp, ast.DictComp, ast.SetComp, ast.Dict, ast.Set, ast.Lambda)):
            return frozenset([("fresh", e.lineno, e.col_offset)])
        if isinstance(e, ast.BoolOp):
            out = set()
            for v in e.values:
                out |= flat(self.eval(v, st))
            return frozenset(out)
        if isinstance(e, ast.IfExp):
            return flat(self.eval(e.body, st)) | flat(self.eval(e.orelse, st))
        if isinstance(e, (ast.Tuple, ast.List)):
            return TupleVal([self.eval(x, st) for x in e.elts])
        if isinstance(e, ast.Starred):
            return self.eval(e.value, st)
        if isinstance(e, ast.Call):
            return self._eval_call(e, st)
        if isinstance(e, ast.NamedExpr):
            return self.eval(e.value, st)
        return frozenset([("fresh", getattr(e, "lineno", 0), getattr(e, "col_offset", 0))])

    def _fresh(self, e: ast.AST) -> OSet:
        return frozenset([("fresh", e.lineno, e.col_offset)])

    def _eval_call(self, c: ast.Call, st):
        d = dotted(c.func)
        args = list(c.args)
        # user-supplied callable: the returned objects are owned by the solver (documented contract)
        if isinstance(c.func, ast.Name) and c.func.id in self.eng.user_names.get(self.f.qual, set()):
            return self._fresh(c)
        tgts = self.eng.cg.targets(self.f, c)
        if tgts:
            outs = []
            for tq in tgts:
                g = self.eng.repo.funcs[tq]
                sm = self.eng.summaries.get(tq)
                if sm is None or sm.ret is None:
                    outs.append(self._fresh(c))
                    continue
                try:
                    b = bind_args(c, g.node, skip_self=(g.cls is not None and g.parent is None))
                except AnalysisError:
                    b = {}
                recv = flat(self.eval(c.func.value, st)) if isinstance(c.func, ast.Attribute) else EMPTY

                def mp(os: OSet) -> OSet:
                    out = set()
                    for o in os:
                        if o[0] == "param":
                            r = root(o)
                            if r in b:
                                out |= flat(self.eval(b[r], st))
                            elif r == "self":
                                out |= recv
                            else:
                                dd = g.defaults().get(r)
                                out |= SCALAR if dd is None or _immutable_literal(dd) else \
                                    frozenset([("default", f"{g.qual}.{r}")])
                        elif o[0] == "fresh":
                            out.add(("fresh", c.lineno, c.col_offset))
                        elif o[0] == "free":
                            out.add(("fresh", c.lineno, c.col_offset))
                        else:
                            out.add(o)
                    return frozenset(out)
                if isinstance(sm.ret, TupleVal):
                    outs.append(TupleVal([mp(flat(x)) for x in sm.ret.elts]))
                else:
                    outs.append(mp(sm.ret))
            if len(outs) == 1:
                return outs[0]
            if all(isinstance(o, TupleVal) and len(o.elts) == len(outs[0].elts) for o in outs):
                return TupleVal([frozenset().union(*[flat(o.elts[i]) for o in outs])
                                 for i in range(len(outs[0].elts))])
            return frozenset().union(*[flat(o) for o in outs])
        # class constructor of the package without __init__ in funcs, or external
        if d in T.CONTAINER_CTORS or (d and d.split(".")[-1] in ("deque", "Deque")):
            return self._fresh(c)
        outkw = [k.value for k in c.keywords if k.arg in T.OUT_KEYWORDS]
        if outkw:
            return flat(self.eval(outkw[0], st))
        if d in T.SCALAR_FUNCS:
            return SCALAR
        if d in T.FRESH_FUNCS:
            return self._fresh(c)
        if d in T.VIEW_FUNCS:
            return flat(self.eval(args[0], st)) if args else self._fresh(c)
        if isinstance(c.func, ast.Attribute):
            m = c.func.attr
            recv_key = dotted(c.func.value)
            recv = flat(self.eval(c.func.value, st))
            if m in ("pop", "popleft"):
                if recv_key and (recv_key + "[]") in st:
                    return st[recv_key + "[]"]
                return recv
            if m in T.FRESH_METHODS:
                return self._fresh(c)
            if m in T.VIEW_METHODS:
                return recv
            if m in T.MUTATING_METHODS:
                return SCALAR
            # module-qualified function (np.foo) that is not in any table
            if d and d.split(".")[0] in ("np", "sp", "numpy", "scipy", "math", "warnings", "logging", "copy"):
                self.unclassified.add(d)
                out = set(self._fresh(c))
                for a in args:
                    out |= flat(self.eval(a, st))
                return frozenset(out)
            self.unclassified.add("." + m)
            return recv | self._fresh(c)
        if d:
            self.unclassified.add(d)
        out = set(self._fresh(c))
        for a in args + [k.value for k in c.keywords]:
            out |= flat(self.eval(a, st))
        return frozenset(out)

    # -------------------------------------------------------------- transfer
    def _mut(self, n: Node, site: ast.AST, origins: OSet, how: str, target: str):
        if self._collect:
            self.mutations.append(Mutation(n, site, origins, how, target))

    def _call_effects(self, n: Node, c: ast.Call, st) -> Dict[str, OSet]:
        """mutations and container stores caused by the call; returns updates to st"""
        upd: Dict[str, OSet] = {}
        d = dotted(c.func)
        if isinstance(c.func, ast.Attribute) and c.func.attr in T.MUTATING_METHODS:
            rk = dotted(c.func.value)
            tgts0 = self.eng.cg.targets(self.f, c)
            if not tgts0:
                recv = flat(self.eval(c.func.value, st))
                self._mut(n, c, recv, f"method .{c.func.attr}()", short(c.func.value))
                if c.func.attr in ("append", "appendleft", "extend", "insert", "add") and rk and c.args:
                    val = flat(self.eval(c.args[-1], st))
                    upd[rk + "[]"] = st.get(rk + "[]", EMPTY) | val
                    if self._collect:
                        self.stores_into.append((n, rk, val, c))
        if d in T.MUTATING_FUNCS:
            for i in T.MUTATING_FUNCS[d]:
                if i < len(c.args):
                    self._mut(n, c, flat(self.eval(c.args[i], st)), f"{d}() writes argument {i}", short(c.args[i]))
        for k in c.keywords:
            if k.arg in T.OUT_KEYWORDS and not (isinstance(k.value, ast.Constant) and k.value.value is None):
                self._mut(n, c, flat(self.eval(k.value, st)), f"{k.arg}= keyword", short(k.value))
            if k.arg in T.OVERWRITE_KEYWORDS and not (isinstance(k.value, ast.Constant) and k.value.value is False):
                i = T.OVERWRITE_KEYWORDS[k.arg]
                if i < len(c.args):
                    self._mut(n, c, flat(self.eval(c.args[i], st)), f"{k.arg}= keyword", short(c.args[i]))
        for tq in self.eng.cg.targets(self.f, c):
            g = self.eng.repo.funcs[tq]
            sm = self.eng.summaries.get(tq)
            if sm is None:
                continue
            try:
                b = bind_args(c, g.node, skip_self=(g.cls is not None and g.parent is None))
            except AnalysisError:
                continue
            for p in sm.mutates:
                if p in b:
                    self._mut(n, c, flat(self.eval(b[p], st)), f"callee {tq} writes its parameter {p}", short(b[p]))
                elif p == "self" and isinstance(c.func, ast.Attribute):
                    self._mut(n, c, flat(self.eval(c.func.value, st)), f"method {tq} writes its object", short(c.func.value))
                else:
                    dd = g.defaults().get(p)
                    if dd is not None and not _immutable_literal(dd):
                        self._mut(n, c, frozenset([("default", f"{g.qual}.{p}")]),
                                  f"callee {tq} writes its default argument {p}", p)
            for cp, vp in sm.stores:
                if cp in b and vp in b:
                    ck = dotted(b[cp])
                    if ck:
                        val = flat(self.eval(b[vp], st))
                        upd[ck + "[]"] = st.get(ck + "[]", EMPTY) | upd.get(ck + "[]", EMPTY) | val
                        if self._collect:
                            self.stores_into.append((n, ck, val, c))
            if self._collect and sm.mut_free:
                pass
        return upd

    def _transfer(self, n: Node, st):
        new = None

        def put(k, v):
            nonlocal new
            if new is None:
                new = dict(st)
            new[k] = v

        for e in node_exprs(n):
            for c in [x for x in walk_no_nested(e) if isinstance(x, ast.Call)]:
                for k, v in self._call_effects(n, c, st).items():
                    put(k, v)
        cur = new if new is not None else st
        s = n.ast
        if n.kind == "stmt":
            if isinstance(s, (ast.Assign, ast.AnnAssign)):
                if isinstance(s, ast.AnnAssign) and s.value is None:
                    return cur
                targets = s.targets if isinstance(s, ast.Assign) else [s.target]
                val = self.eval(s.value, cur)
                ann_scalar = isinstance(s, ast.AnnAssign) and src(s.annotation) in T.SCALAR_ANNOTATIONS
                for t in targets:
                    self._assign(n, t, val, s.value, cur, put, ann_scalar)
            elif isinstance(s, ast.AugAssign):
                t = s.target
                if isinstance(t, ast.Subscript):
                    bk = base_key(t.value)
                    og = flat(self.eval(t.value, cur))
                    self._mut(n, s, og, "augmented assignment into a slice", short(t.value))
                else:
                    og = flat(self.eval(t, cur))
                    self._mut(n, s, og, "augmented assignment (in place for arrays)", short(t))
            elif isinstance(s, ast.Return):
                if self._collect and s.value is not None:
                    self.returns.append((n, self.eval(s.value, cur)))
            elif isinstance(s, ast.FunctionDef):
                put(s.name, frozenset([("fresh", s.lineno, s.col_offset)]))
                # closures that write objects of this scope
                for q, g in self.eng.repo.funcs.items():
                    if g.node is s:
                        sm = self.eng.summaries.get(q)
                        if sm:
                            for nm in sm.mut_free:
                                self._mut(n, s, self.lookup(nm, cur), f"closure {s.name} writes {nm}", nm)
            elif isinstance(s, ast.Delete):
                pass
        elif n.kind == "for":
            it = s.iter
            cur2 = new if new is not None else st
            if isinstance(it, ast.Call) and dotted(it.func) == "zip" and isinstance(s.target, ast.Tuple) \
                    and len(it.args) == len(s.target.elts):
                for te, a in zip(s.target.elts, it.args):
                    self._assign(n, te, self._iter_elems(a, cur2), a, cur2, put, False)
            elif isinstance(it, ast.Call) and dotted(it.func) in ("range", "enumerate"):
                self._assign(n, s.target, SCALAR if dotted(it.func) == "range" else
                             TupleVal([SCALAR, self._iter_elems(it.args[0], cur2)]) if it.args else SCALAR,
                             it, cur2, put, False)
            else:
                self._assign(n, s.target, self._iter_elems(it, cur2), it, cur2, put, False)
        elif n.kind == "with":
            for item in s.items:
                if item.optional_vars is not None:
                    self._assign(n, item.optional_vars, self.eval(item.context_expr, cur), item.context_expr, cur, put, False)
        elif n.kind == "handler":
            if s.name:
                put(s.name, frozenset([("fresh", s.lineno, s.col_offset)]))
        return new if new is not None else st

    def _iter_elems(self, it: ast.AST, st) -> OSet:
        if isinstance(it, ast.Call) and dotted(it.func) == "reversed" and it.args:
            it = it.args[0]
        k = dotted(it)
        if k and (k + "[]") in st:
            return st[k + "[]"]
        return flat(self.eval(it, st))

    def _assign(self, n: Node, t: ast.AST, val, vexpr, st, put, ann_scalar: bool):
        if isinstance(t, (ast.Tuple, ast.List)):
            if isinstance(val, TupleVal) and len(val.elts) == len(t.elts):
                for te, v in zip(t.elts, val.elts):
                    self._assign(n, te, v, vexpr, st, put, False)
            else:
                fv = flat(val)
                for i, te in enumerate(t.elts):
                    # a call returning a tuple of new objects: one object per element
                    ev = frozenset((o + (i,)) if o[0] == "fresh" and len(o) == 3 and isinstance(vexpr, ast.Call)
                                   and o[1:3] == (vexpr.lineno, vexpr.col_offset) else o for o in fv)
                    self._assign(n, te, ev, vexpr, st, put, False)
            return
        if isinstance(t, ast.Starred):
            self._assign(n, t.value, flat(val), vexpr, st, put, False)
            return
        if isinstance(t, ast.Subscript):
            og = flat(self.eval(t.value, st))
            self._mut(n, t, og, "element / slice store", short(t.value))
            bk = dotted(t.value)
            if bk and (bk + "[]") in st:
                put(bk + "[]", st[bk + "[]"] | flat(val))
            return
        k = dotted(t)
        if not k:
            return
        v = SCALAR if ann_scalar else flat(val)
        if isinstance(t, ast.Attribute):
            # store into a field of an object: a write to that object
            og = flat(self.eval(t.value, st))
            self._mut(n, t, og, "attribute store", short(t.value))
        put(k, v)
        # container construction: remember what the elements are
        elems = None
        if isinstance(vexpr, ast.Call):
            d = dotted(vexpr.func)
            if d and (d in T.CONTAINER_CTORS or d.split(".")[-1] in ("deque", "Deque")):
                elems = EMPTY
                if vexpr.args:
                    a0 = vexpr.args[0]
                    if isinstance(a0, (ast.List, ast.Tuple)):
                        for x in a0.elts:
                            elems |= flat(self.eval(x, st))
                    else:
                        elems = self._iter_elems(a0, st)
            else:
                # container returned by a package function: elements = what the callee put in it
                tg = self.eng.cg.targets(self.f, vexpr)
                if tg:
                    pass
        elif isinstance(vexpr, (ast.List, ast.Tuple)) and isinstance(val, TupleVal):
            elems = flat(val)
        elif isinstance(vexpr, ast.Name) and (vexpr.id + "[]") in st:
            elems = st[vexpr.id + "[]"]
        if elems is not None:
            put(k + "[]", elems)
        elif (k + "[]") in st and not isinstance(vexpr, ast.Call):
            put(k + "[]", EMPTY)


def _immutable_literal(d: ast.expr) -> bool:
    if isinstance(d, ast.Constant):
        return True
    if isinstance(d, ast.Tuple):
        return all(_immutable_literal(x) for x in d.elts)
    if isinstance(d, ast.UnaryOp) and isinstance(d.operand, ast.Constant):
        return True
    if isinstance(d, (ast.Name, ast.Attribute)):
        # a named constant / function / -np.inf: immutable unless it is a module-level mutable (SHARED checks those)
        return True
    if isinstance(d, ast.BinOp):
        return _immutable_literal(d.left) and _immutable_literal(d.right)
    return False


def _join(a, b):
    if a is b:
        return a
    out = dict(a)
    for k, v in b.items():
        out[k] = out[k] | v if k in out else v
    return out


class AliasEngine:
    def __init__(self, ctx):
        from .rules.exc import usertaint
        self.ctx = ctx
        self.repo: Repo = ctx.repo
        ut = usertaint(ctx)
        self.cg: CallGraph = ctx.notes["callgraph"]
        self.user_names = ut.names
        self.summaries: Dict[str, Summary] = {}
        self.fa: Dict[str, FuncAlias] = {}
        order = sorted(self.repo.funcs)
        for rnd in range(8):
            changed = False
            for q in order:
                f = self.repo.funcs[q]
                fa = FuncAlias(self, f)
                self.fa[q] = fa
                sm = self._summarise(fa)
                old = self.summaries.get(q)
                if old is None or old.sig() != sm.sig():
                    changed = True
                self.summaries[q] = sm
            if not changed:
                break
        else:
            raise AnalysisError("alias summaries did not reach a fixpoint in 8 rounds")
        self.rounds = rnd + 1

    def _summarise(self, fa: FuncAlias) -> Summary:
        sm = Summary()
        rets = [v for _, v in fa.returns]
        if rets:
            if all(isinstance(r, TupleVal) for r in rets) and len({len(r.elts) for r in rets}) == 1:
                sm.ret = TupleVal([frozenset().union(*[flat(r.elts[i]) for r in rets])
                                   for i in range(len(rets[0].elts))])
            else:
                sm.ret = frozenset().union(*[flat(r) for r in rets])
        for m in fa.mutations:
            for o in m.origins:
                if o[0] == "param":
                    sm.mutates.add(root(o))
                elif o[0] == "free":
                    sm.mut_free.add(root(o))
        for n, ck, val, site in fa.stores_into:
            # container key ck holds a parameter container?
            cos = fa.IN.get(n, fa.init).get(ck, EMPTY)
            for co in cos:
                if co[0] == "param":
                    for vo in val:
                        if vo[0] == "param":
                            sm.stores.add((root(co), root(vo)))
        return sm

    def unclassified(self) -> List[str]:
        out: Set[str] = set()
        for fa in self.fa.values():
            out |= fa.unclassified
        return sorted(out)


def engine(ctx) -> AliasEngine:
    if "alias" not in ctx.notes:
        ctx.notes["alias"] = AliasEngine(ctx)
    return ctx.notes["alias"]
