"""sa.runner -- rule registry, context, evidence, known findings, exit codes."""
from __future__ import annotations

import json
import os
import sys
import time
import traceback
from typing import Callable, Dict, List, Optional

from .cfg import CFG
from .core import AnalysisError, Func, Ob, Repo
from .flow import ReachingDefs

VERIF = os.path.dirname(os.path.dirname(os.path.abspath(__file__)))
EVID = os.path.join(VERIF, "evidence")
KNOWN = os.path.join(VERIF, "known_findings.json")

RULES: Dict[str, dict] = {}


def rule(name: str, min_instances: int = 1, doc: str = ""):
    """register a rule; `min_instances` is the number of obligations confirmed
    by hand on the pinned tree -- finding fewer is ANALYSIS-ERROR (a rule that
    matches nothing passes vacuously forever)."""
    def deco(fn: Callable):
        RULES[name] = {"fn": fn, "min": min_instances, "doc": doc or (fn.__doc__ or "").strip()}
        return fn
    return deco


class Ctx:
    def __init__(self, repo: Repo):
        self.repo = repo
        self._cfg: Dict[str, CFG] = {}
        self._rd: Dict[str, ReachingDefs] = {}
        self.notes: Dict[str, object] = {}

    def cfg(self, f: Func) -> CFG:
        if f.qual not in self._cfg:
            self._cfg[f.qual] = CFG(f.node)
        return self._cfg[f.qual]

    def rd(self, f: Func) -> ReachingDefs:
        if f.qual not in self._rd:
            self._rd[f.qual] = ReachingDefs(self.cfg(f))
        return self._rd[f.qual]


def run_rules(repo: Repo, names: List[str]) -> List[Ob]:
    """run the rules; a rule that cannot give a verdict (AnalysisError) aborts the run unless another
    rule already refutes the property -- then the violations are reported and the error is kept as a note"""
    ctx = Ctx(repo)
    obs: List[Ob] = []
    errors: List[str] = []
    for nm in names:
        r = RULES[nm]
        try:
            got = r["fn"](ctx)
            for o in got:
                if o.rule != nm and not o.rule.startswith(nm):
                    o.rule = nm
            if len(got) < r["min"] and not any(not o.ok for o in got):
                raise AnalysisError(
                    f"rule {nm}: {len(got)} instances found, {r['min']} confirmed by hand "
                    f"-- the rule would pass vacuously")
        except AnalysisError as e:
            errors.append(f"{nm}: {e}")
            continue
        obs += got
    if errors and not any(not o.ok for o in obs):
        raise AnalysisError("; ".join(errors))
    run_rules.last_errors = errors
    run_rules.last_ctx = ctx
    return obs


run_rules.last_errors = []
run_rules.last_ctx = None


def load_known() -> List[dict]:
    try:
        return json.load(open(KNOWN))["findings"]
    except FileNotFoundError:
        return []


def analysed_summary(repo: Repo) -> dict:
    return {
        "root": repo.root,
        "modules": sorted(m.rel for m in repo.modules.values()),
        "functions": len(repo.funcs),
        "statement_inventory": repo.inventory,
        "normalisation": {"rewrites_applied": repo.desugared,
                          "what": "behaviour-preserving rewrites applied by the loader before the rules ran (sa/desugar.py, sa/inline.py); "
                                  "the statement inventory above is taken after them"},
    }


ASSUMPTIONS = [
    "the normalisation rewrites of sa/desugar.py / sa/inline.py preserve behaviour under their stated side conditions "
    "(numpy method and function spellings of max/min/clip/copy/nonzero are equivalent on arrays; @np.errstate does not change values)",
    "Python's dynamic features are not used against the analysis: no monkey-patching, "
    "no setattr/exec/eval/globals() (the loader checks the package contains none); "
    "user callables obey the documented signatures",
    "numpy/scipy routines behave as the frozen effects table says (fresh / view / in-place); "
    "np.clip(a, lo, hi) with lo <= hi returns values in [lo, hi] exactly for every non-NaN a (np.clip(nan) is nan: an "
    "objective returning +inf makes DCSRCH hand back a nan step, outside the finite-valued objectives the properties quantify over)",
    "exceptions other than those explicitly modelled are not used for control flow",
    "static verdict on structural clauses only: the numerical part of the property listed "
    "under not_decided is NOT established by this check",
]


def check_property(pid: str, spec: dict, root: str, tier: str, seed: int,
                   selftest: Optional[Callable] = None, write: bool = True) -> int:
    t0 = time.time()
    os.makedirs(os.path.join(EVID, "replay"), exist_ok=True)
    evpath = os.path.join(EVID, f"{pid}.json")
    os.environ["SA_TIER"] = tier
    try:
        repo = Repo(root)
        obs = run_rules(repo, spec["rules"])
        st = None
        if selftest is not None:
            try:
                st = selftest(pid, spec, root, tier)
            except Exception as e_:
                if not any(not o.ok for o in obs):
                    raise
                # the tree violates a rule: that is the verdict; trouble while running variants on top of a violating tree
                # (they are only meaningful on a tree that passes) is reported, not enforced
                print(f"NOTE property={pid} self-test could not run on this (violating) tree: {type(e_).__name__}: {str(e_)[:200]}")
                st = {"failed": [], "note": f"not run: {type(e_).__name__}"}
            if st.get("failed"):
                if any(not o.ok for o in obs):
                    # the tree itself violates a rule: the violation is the verdict; variants of a violating
                    # tree can mask each other, so their outcome is reported, not enforced
                    print(f"NOTE property={pid} self-test variants disturbed by the violation(s) below: " + "; ".join(st["failed"][:3])[:300])
                else:
                    raise AnalysisError("checker self-test failed: " + "; ".join(st["failed"][:5]))
    except AnalysisError as e:
        print(f"ANALYSIS-ERROR property={pid} {e}")
        return 2
    except Exception:
        traceback.print_exc()
        print(f"ANALYSIS-ERROR property={pid} internal error in the checker (see traceback)")
        return 2

    known_open = [k for k in load_known() if k.get("status") == "open" and k.get("property") == pid]
    viol, kf = [], []
    for o in obs:
        if o.ok:
            continue
        hit = None
        for k in known_open:
            if k.get("rule") == o.rule and k.get("function", "").split("#")[0] == o.func.split("#")[0] and \
                    " ".join(k.get("construct", "").split()) == " ".join(o.construct.split()):
                hit = k
        if hit is not None:
            kf.append((o, hit))
        else:
            viol.append(o)
    for o, k in kf:
        print(f"KNOWN-FINDING: property={pid} {o.rule} {o.file}:{o.line} {o.construct} -- {k.get('what', '')}")
    code = 0
    for i, o in enumerate(viol):
        rp = os.path.join(EVID, "replay", f"{pid}-{o.rule}-{i}.json")
        if write:
            json.dump({"property": pid, **o.as_dict(), "root": repo.root,
                       "how_to_read": "static finding: the construct at `where` refutes the obligation "
                                      "`instance` of rule `rule`; `fact` is the refuting path / alias chain / value"},
                      open(rp, "w"), indent=1)
        print(f"VIOLATION property={pid} replay={rp}")
        print(f"  {o.rule} [{o.inst}] {o.file}:{o.line} in {o.func}: {o.construct}\n    -> {o.fact}")
        code = 1

    distinct = {o.key() for o in obs if o.nontrivial}
    per_rule: Dict[str, List[int]] = {}
    for o in obs:
        a = per_rule.setdefault(o.rule, [0, 0])
        a[0] += 1
        a[1] += 1 if o.ok else 0
    samples = [o.as_dict() for o in obs]
    cov = {
        "explanation": spec["explanation"],
        "not_decided": spec["not_decided"],
        "rule": "obligations are enumerated from the current source tree by the rules "
                + ", ".join(spec["rules"]) + "; one obligation per (rule, construct); "
                "distinct_nontrivial counts distinct (rule, function, construct) whose verdict "
                "needed at least one dataflow / control-flow / binding fact (not a pure syntactic match)",
        "obligations": len(obs),
        "discharged": sum(1 for o in obs if o.ok),
        "evaluations": len(obs),
        "distinct_nontrivial": len(distinct),
        "per_rule": {k: {"obligations": v[0], "discharged": v[1]} for k, v in per_rule.items()},
        "rules": {nm: RULES[nm]["doc"] for nm in spec["rules"]},
        "samples": samples,
        "analysed": analysed_summary(repo),
        "known_findings_printed": len(kf),
        "checker_cmd": f"python3-vt -m sa check {pid} --tier {tier} --root {root}",
        "trusted_base": ["python ast (parser)", "networkx dominators", "frozen tables in sa/tables.py",
                         "sympy (C19 only)"],
        "exhaustive": True,
    }
    if st is not None:
        cov["selftest"] = st
    if run_rules.last_errors:
        cov["analysis_errors_next_to_violations"] = run_rules.last_errors
        for e in run_rules.last_errors:
            print(f"ANALYSIS-ERROR (next to violations) property={pid} {e}")
    lc = run_rules.last_ctx
    if lc is not None:
        for k in ("unclassified_callees", "U", "exit_states"):
            if k in lc.notes:
                cov[k] = lc.notes[k]
    ev = {
        "property_id": pid, "tier": tier, "seed": seed, "level": "other",
        "coverage": cov, "assumptions": ASSUMPTIONS + spec.get("assumptions", []),
        "wall_s": round(time.time() - t0, 3), "violations": len(viol),
    }
    if write:
        json.dump(ev, open(evpath, "w"), indent=1)
    n_ok = cov["discharged"]
    print(f"property={pid} tier={tier} rules={','.join(spec['rules'])} obligations={len(obs)} "
          f"discharged={n_ok} violations={len(viol)} known={len(kf)} wall={ev['wall_s']}s")
    return code
