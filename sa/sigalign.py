"""Signature alignment against the reference tree (T28, T29), applied to all parsed modules after re-homing and before the
per-module passes.

The rules find their anchors by name: functions (tables.KNOWN_FUNCS), some parameters (`eps`, `maxcor`, `iprint`, ...),
methods and hook attributes of ScalarFunction.  Renaming a private function, renaming or reordering its parameters, making
them keyword-only or giving them defaults changes no behaviour.  So, with the reference copy of the package (sa/reference,
the tree the rules were written against) as the dictionary:

  T28a  a known function (or method) that is missing, while a function (method) the reference does not have sits in the same
        module (class) and has the same statement shapes (names erased, difflib ratio >= 0.6, clearly the best candidate) is
        that function under a new name: it is renamed back everywhere in the package (definitions, calls, attribute
        accesses, imports).  The new name must not occur in the reference at all, so every occurrence belongs to the renaming.
  T28b  parameters of a known function that the reference does not have are mapped onto the reference parameters that are
        missing, by the positions they occupy in statements of equal shape (the voting of sa.alpha), or directly when one
        is new and one is missing; the parameter is renamed in the definition, in the body and in the keyword arguments of
        every call of that function in the package.  Order, keyword-only markers and defaults are left as they are -- the
        rules bind arguments through the definition they see.
  T29   a call of a known module-level function that omits an argument whose default is a constant gets that default as an
        explicit keyword: what the callee will use is then visible at the call site (and a changed default is, too).

Nothing is renamed when the evidence is not unambiguous; the rules then fail closed on the missing anchor as before."""
from __future__ import annotations

import ast
import copy
import difflib
import os
from typing import Dict, List, Optional, Set, Tuple

from . import alpha

PKG = "lbfgsb"


def _flat_keys(fn: ast.FunctionDef) -> List[str]:
    a = fn.args
    names = {p.arg for p in a.posonlyargs + a.args + a.kwonlyargs} | alpha._locals(fn)
    out: List[str] = []

    def go(block):
        for s in block:
            if isinstance(s, ast.Expr) and isinstance(s.value, ast.Constant) and isinstance(s.value.value, str):
                continue
            out.append(alpha._key(s, names))
            for f in ("body", "orelse", "finalbody"):
                b = getattr(s, f, None)
                if isinstance(b, list) and b and isinstance(b[0], ast.stmt) and not isinstance(s, (ast.FunctionDef, ast.ClassDef)):
                    go(b)
            if isinstance(s, ast.Try):
                for h in s.handlers:
                    go(h.body)
    go(fn.body)
    return out


def _similar(a: ast.FunctionDef, b: ast.FunctionDef) -> float:
    ka, kb = _flat_keys(a), _flat_keys(b)
    if not ka or not kb:
        return 0.0
    return difflib.SequenceMatcher(a=ka, b=kb, autojunk=False).ratio()


def _scopes(tree: ast.Module) -> Dict[Optional[str], Dict[str, ast.FunctionDef]]:
    """{None: module-level functions, class name: its methods}"""
    out: Dict[Optional[str], Dict[str, ast.FunctionDef]] = {None: {}}
    for s in tree.body:
        if isinstance(s, ast.FunctionDef):
            out[None][s.name] = s
        elif isinstance(s, ast.ClassDef):
            out[s.name] = {m.name: m for m in s.body if isinstance(m, ast.FunctionDef)}
    return out


def _all_identifiers(trees: Dict[str, ast.Module]) -> Set[str]:
    ids: Set[str] = set()
    for t in trees.values():
        for n in ast.walk(t):
            if isinstance(n, ast.Name):
                ids.add(n.id)
            elif isinstance(n, ast.Attribute):
                ids.add(n.attr)
            elif isinstance(n, (ast.FunctionDef, ast.ClassDef)):
                ids.add(n.name)
            elif isinstance(n, ast.arg):
                ids.add(n.arg)
            elif isinstance(n, ast.alias):
                ids.add(n.asname or n.name.split(".")[-1])
            elif isinstance(n, ast.keyword) and n.arg:
                ids.add(n.arg)
    return ids


def _rename_everywhere(trees: Dict[str, ast.Module], old: str, new: str) -> None:
    for t in trees.values():
        for n in ast.walk(t):
            if isinstance(n, ast.Name) and n.id == old:
                n.id = new
            elif isinstance(n, ast.Attribute) and n.attr == old:
                n.attr = new
            elif isinstance(n, ast.FunctionDef) and n.name == old:
                n.name = new
            elif isinstance(n, ast.alias):
                if n.name == old:
                    n.name = new
                if n.asname == old:
                    n.asname = new
            elif isinstance(n, ast.Constant) and n.value == old:
                n.value = new          # __all__ and autosummary strings


def _rename_functions(trees: Dict[str, ast.Module], refs: Dict[str, ast.Module], stats: Dict[str, int]) -> None:
    ref_ids = _all_identifiers(refs)
    for m in sorted(trees):
        if m not in refs:
            continue
        cs, rs = _scopes(trees[m]), _scopes(refs[m])
        for scope in rs:
            if scope not in cs:
                continue
            cur, ref = cs[scope], rs[scope]
            missing = [f for f in ref if f not in cur and not (f.startswith("__") and f.endswith("__"))]
            fresh = [g for g in cur if g not in ref and g not in ref_ids and not (g.startswith("__") and g.endswith("__"))]
            if not missing or not fresh:
                continue
            # a missing name that is still imported or defined elsewhere in the package was moved, not renamed
            score = {(f, g): _similar(ref[f], cur[g]) for f in missing for g in fresh}
            taken: Set[str] = set()
            for f in missing:
                cand = sorted(((score[(f, g)], g) for g in fresh if g not in taken), reverse=True)
                if not cand or cand[0][0] < 0.6:
                    continue
                if len(cand) > 1 and cand[1][0] > cand[0][0] - 0.15:
                    continue
                g = cand[0][1]
                # g must also prefer f
                back = sorted(((score[(f2, g)], f2) for f2 in missing), reverse=True)
                if back[0][1] != f:
                    continue
                if any(isinstance(n, (ast.Name, ast.Attribute)) and (getattr(n, "id", None) == f or getattr(n, "attr", None) == f)
                       for t in trees.values() for n in ast.walk(t)):
                    continue        # the old name is still in use for something
                _rename_everywhere(trees, g, f)
                taken.add(g)
                stats["T28 function renamed back"] = stats.get("T28 function renamed back", 0) + 1


def _unwrap_thin_wrappers(trees: Dict[str, ast.Module], refs: Dict[str, ast.Module], known: Set[str], stats: Dict[str, int]) -> None:
    """T28c: a known module-level function w reduced to `return C.m(<its own parameters>)`, with m a method the reference
    does not have: the body of m is w's body again (self and the parameters renamed), and every `recv.m(..)` in the package
    is the call `w(..)` it was"""
    ref_ids = _all_identifiers(refs)
    for mname in sorted(trees):
        tree = trees[mname]
        classes = {c.name: c for c in tree.body if isinstance(c, ast.ClassDef)}
        for w in [n for n in tree.body if isinstance(n, ast.FunctionDef)]:
            if f"{mname}.{w.name}" not in known:
                continue
            body = [b for b in w.body if not (isinstance(b, ast.Expr) and isinstance(b.value, ast.Constant))]
            if not (len(body) == 1 and isinstance(body[0], ast.Return) and isinstance(body[0].value, ast.Call)):
                continue
            call = body[0].value
            f = call.func
            if not (isinstance(f, ast.Attribute) and isinstance(f.value, ast.Name) and f.value.id in classes and not call.keywords):
                continue
            cls = classes[f.value.id]
            meth = next((m_ for m_ in cls.body if isinstance(m_, ast.FunctionDef) and m_.name == f.attr), None)
            if meth is None or f.attr in ref_ids or meth.decorator_list or meth.args.vararg or meth.args.kwarg or meth.args.kwonlyargs:
                continue
            wpar = _params(w)
            mpar = [a.arg for a in meth.args.args]
            if len(call.args) != len(mpar) or not all(isinstance(a, ast.Name) for a in call.args) or sorted(a.id for a in call.args) != sorted(wpar):
                continue
            # other classes must not define a method of that name
            if sum(1 for t in trees.values() for c_ in ast.walk(t) if isinstance(c_, ast.ClassDef)
                   for m_ in c_.body if isinstance(m_, ast.FunctionDef) and m_.name == f.attr) != 1:
                continue
            m2w = {mp: a.id for mp, a in zip(mpar, call.args)}          # method parameter -> wrapper parameter
            locals_ = alpha._locals(meth)
            if set(m2w.values()) & (locals_ - set(mpar)):
                continue
            # 1. the wrapper gets the body back
            new_body = copy.deepcopy([b for b in meth.body if not (isinstance(b, ast.Expr) and isinstance(b.value, ast.Constant))])
            holder = ast.Module(body=new_body, type_ignores=[])
            alpha._Rename(dict(m2w)).generic_visit(holder)
            doc = [b for b in w.body if isinstance(b, ast.Expr) and isinstance(b.value, ast.Constant)][:1]
            w.body = doc + holder.body
            ast.fix_missing_locations(w)
            # 2. calls of the method become calls of the wrapper
            for t in trees.values():
                for c_ in ast.walk(t):
                    if isinstance(c_, ast.Call) and isinstance(c_.func, ast.Attribute) and c_.func.attr == f.attr and \
                            not (isinstance(c_.func.value, ast.Name) and c_.func.value.id == cls.name):
                        if any(isinstance(a, ast.Starred) for a in c_.args) or any(k.arg is None for k in c_.keywords):
                            continue
                        bound = {mpar[0]: c_.func.value}
                        for mp, a in zip(mpar[1:], c_.args):
                            bound[mp] = a
                        for k in c_.keywords:
                            bound[k.arg] = k.value
                        if set(bound) != set(mpar):
                            continue
                        w2m = {v: k for k, v in m2w.items()}
                        c_.func = ast.copy_location(ast.Name(w.name, ast.Load()), c_.func)
                        c_.args = [bound[w2m[p]] for p in wpar]
                        c_.keywords = []
                        ast.fix_missing_locations(c_)
            # 3. the method goes when nothing mentions it any more
            if not any(isinstance(n, ast.Attribute) and n.attr == f.attr for t in trees.values() for n in ast.walk(t)):
                cls.body.remove(meth)
                if not cls.body:
                    cls.body.append(ast.Pass())
            stats["T28 thin wrapper unwrapped"] = stats.get("T28 thin wrapper unwrapped", 0) + 1


def _params(fn: ast.FunctionDef) -> List[str]:
    a = fn.args
    return [p.arg for p in a.posonlyargs + a.args + a.kwonlyargs]


def _rename_parameters(trees: Dict[str, ast.Module], refs: Dict[str, ast.Module], stats: Dict[str, int]) -> None:
    for m in sorted(trees):
        if m not in refs:
            continue
        cs, rs = _scopes(trees[m]), _scopes(refs[m])
        for scope in rs:
            if scope not in cs:
                continue
            for fname, rfn in rs[scope].items():
                cfn = cs[scope].get(fname)
                if cfn is None:
                    continue
                pc, pr = _params(cfn), _params(rfn)
                new = [p for p in pc if p not in pr]
                gone = [p for p in pr if p not in pc]
                if not new or not gone:
                    continue
                mapping: Dict[str, str] = {}
                cl = set(pc) | alpha._locals(cfn)
                rl = set(pr) | alpha._locals(rfn)
                votes: Dict[str, Dict[str, int]] = {}
                alpha._vote(cfn.body, rfn.body, cl, rl, votes)
                for p in new:
                    cand = {r: k for r, k in votes.get(p, {}).items() if r in gone}
                    if cand:
                        best = max(cand.items(), key=lambda kv: kv[1])
                        if list(cand.values()).count(best[1]) == 1:
                            mapping[p] = best[0]
                if not mapping and len(new) == 1 and len(gone) == 1:
                    mapping[new[0]] = gone[0]
                # same position and same default is further evidence for what is still unmapped
                for i, p in enumerate(pc):
                    if p in new and p not in mapping and i < len(pr) and pr[i] in gone and pr[i] not in mapping.values():
                        mapping[p] = pr[i]
                tgt: Dict[str, List[str]] = {}
                for c_, r_ in mapping.items():
                    tgt.setdefault(r_, []).append(c_)
                mapping = {c_: r_ for c_, r_ in mapping.items() if len(tgt[r_]) == 1}
                used = {n.id for n in ast.walk(cfn) if isinstance(n, ast.Name)} | set(pc)
                mapping = {c_: r_ for c_, r_ in mapping.items() if r_ not in used or r_ in mapping}
                if not mapping:
                    continue
                for a_ in ast.walk(cfn.args):
                    if isinstance(a_, ast.arg) and a_.arg in mapping:
                        a_.arg = mapping[a_.arg]
                holder = ast.Module(body=cfn.body, type_ignores=[])
                alpha._Rename(dict(mapping)).generic_visit(holder)
                cfn.body = holder.body
                # keyword arguments at the calls of this function, package-wide
                for t in trees.values():
                    for c in ast.walk(t):
                        if isinstance(c, ast.Call) and ((isinstance(c.func, ast.Name) and c.func.id == fname) or
                                                        (isinstance(c.func, ast.Attribute) and c.func.attr == fname)):
                            for k in c.keywords:
                                if k.arg in mapping:
                                    k.arg = mapping[k.arg]
                stats["T28 parameter renamed back"] = stats.get("T28 parameter renamed back", 0) + len(mapping)


def _is_const_default(d: ast.expr) -> bool:
    if isinstance(d, ast.Constant):
        return True
    if isinstance(d, ast.UnaryOp) and isinstance(d.op, (ast.USub, ast.UAdd)) and isinstance(d.operand, ast.Constant):
        return True
    return False


def _explicit_defaults(trees: Dict[str, ast.Module], known: Set[str], stats: Dict[str, int]) -> None:
    funcs: Dict[str, ast.FunctionDef] = {}
    dup: Set[str] = set()
    for m, t in trees.items():
        for s in t.body:
            if isinstance(s, ast.FunctionDef) and f"{m}.{s.name}" in known:
                if s.name in funcs:
                    dup.add(s.name)
                funcs[s.name] = s
    for t in trees.values():
        for c in ast.walk(t):
            if not (isinstance(c, ast.Call) and isinstance(c.func, ast.Name) and c.func.id in funcs and c.func.id not in dup):
                continue
            fn = funcs[c.func.id]
            if any(isinstance(a, ast.Starred) for a in c.args) or any(k.arg is None for k in c.keywords) or fn.args.vararg or fn.args.kwarg:
                continue
            a = fn.args
            pos = a.posonlyargs + a.args
            dflt: Dict[str, ast.expr] = {}
            for p, d in zip(pos[len(pos) - len(a.defaults):], a.defaults):
                dflt[p.arg] = d
            for p, d in zip(a.kwonlyargs, a.kw_defaults):
                if d is not None:
                    dflt[p.arg] = d
            given = {p.arg for p in pos[:len(c.args)]} | {k.arg for k in c.keywords}
            for p in [x.arg for x in pos + a.kwonlyargs]:
                if p not in given and p in dflt and _is_const_default(dflt[p]):
                    kw = ast.keyword(arg=p, value=copy.deepcopy(dflt[p]))
                    ast.copy_location(kw.value, c)
                    c.keywords.append(kw)
                    stats["T29 default made explicit"] = stats.get("T29 default made explicit", 0) + 1
            ast.fix_missing_locations(c)


def _references() -> Dict[str, ast.Module]:
    out: Dict[str, ast.Module] = {}
    for fn in sorted(os.listdir(alpha.REF_DIR)):
        if fn.endswith(".py"):
            out[fn[:-3]] = ast.parse(open(os.path.join(alpha.REF_DIR, fn), encoding="utf-8").read())
    return out


def sigalign(trees: Dict[str, ast.Module], known: Set[str], changed: bool) -> Dict[str, int]:
    stats: Dict[str, int] = {}
    if changed:
        refs = _references()
        _rename_functions(trees, refs, stats)
        _unwrap_thin_wrappers(trees, refs, known, stats)
        _rename_parameters(trees, refs, stats)
    _explicit_defaults(trees, known, stats)
    return stats
