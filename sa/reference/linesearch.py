r"""
Implement the line search algorithm by Moré and Thuente (1994),
currently used for the L-BFGS-B algorithm.

The target of this line search algorithm is to find a step size \f$\alpha\f$ that
satisfies the strong Wolfe condition
\f$f(x+\alpha d) \le f(x) + \alpha\mu g(x)^T d\f$ and \f$|g(x+\alpha d)^T d| \le
\eta|g(x)^T d|\f$.

Functions
^^^^^^^^^

.. autosummary::
   :toctree: _autosummary

    max_allowed_steplength
    line_search

Reference:
[1] Moré, J. J., & Thuente, D. J. (1994). Line search algorithms with guaranteed
sufficient decrease.
"""

import logging
import warnings
from typing import Optional

import numpy as np
import scipy as sp
from packaging.version import Version
from scipy import __version__ as spversion

from lbfgsb.scalar_function import ScalarFunction
from lbfgsb.types import NDArrayFloat


def max_allowed_steplength(
    x: NDArrayFloat,
    d: NDArrayFloat,
    lb: NDArrayFloat,
    ub: NDArrayFloat,
    max_steplength: float,
    n_iter: int,
) -> float:
    r"""
    Computes the biggest 0<=k<=max_steplength such that:
        l<= x+kd <= u

    Parameters
    ----------
    x : NDArrayFloat
        Starting point.
    d : NDArrayFloat
        Direction.
    lb : NDArrayFloat
        the lower bound of x.
    ub : NDArrayFloat
        The upper bound of x
    max_steplength : float
        Maximum steplength allowed.
    n_iter: int
        Current number of outer itreations.

    Returns
    -------
    float
        maximum steplength allowed

    References
    ----------
    * R. H. Byrd, P. Lu and J. Nocedal. A Limited Memory Algorithm for Bound
      Constrained Optimization, (1995), SIAM Journal on Scientific and
      Statistical Computing, 16, 5, pp. 1190-1208.
    * C. Zhu, R. H. Byrd and J. Nocedal. L-BFGS-B: Algorithm 778: L-BFGS-B,
      FORTRAN routines for large scale bound constrained optimization (1997),
      ACM Transactions on Mathematical Software, 23, 4, pp. 550 - 560.
    * J.L. Morales and J. Nocedal. L-BFGS-B: Remark on Algorithm 778: L-BFGS-B,
      FORTRAN routines for large scale bound constrained optimization (2011),
      ACM Transactions on Mathematical Software, 38, 1.
    """
    # Determine the maximum step length.
    if n_iter == 0:
        return 1.0  # we are not sure this is a good idea
    with np.errstate(divide="ignore"):
        _mask = d != 0
        _tmp = np.where(
            d[_mask] > 0, (ub - x)[_mask] / d[_mask], (lb - x)[_mask] / d[_mask]
        )
        if _tmp[np.isfinite(_tmp)].size == 0:
            return max_steplength
        return min(max_steplength, np.nanmin(_tmp[np.isfinite(_tmp)]))


def line_search(
    x0: NDArrayFloat,
    f0: float,
    g0: NDArrayFloat,
    d: NDArrayFloat,
    lb: NDArrayFloat,
    ub: NDArrayFloat,
    above_iter: int,
    max_steplength_user: float,
    is_boxed: bool,
    sf: ScalarFunction,
    ftol: float = 1e-3,
    gtol: float = 0.9,
    xtol: float = 1e-1,
    max_iter: int = 30,
    iprint: int = 10,
    logger: Optional[logging.Logger] = None,
    isave: Optional[NDArrayFloat] = None,
    dsave: Optional[NDArrayFloat] = None,
) -> Optional[float]:
    r"""
    Find a step that satisfies both decrease condition and a curvature condition.

        f(x0+stp*d) <= f(x0) + alpha*stp*\langle f'(x0),d\rangle,

    and the curvature condition

        abs(f'(x0+stp*d)) <= beta*abs(\langle f'(x0),d\rangle).

    If alpha is less than beta and if, for example, the functionis bounded below, then
    there is always a step which satisfies both conditions.

    Note
    ----
    When using scipy-1.11 and below, this subroutine calls subroutine dcsrch from the
    Minpack2 library to perform the line search.  Subroutine dscrch is safeguarded so
    that all trial points lie within the feasible region. Otherwise, it uses the
    python reimplementation introduced in scipy-1.12.

    Parameters
    ----------
    x0 : NDArrayFloat
        Starting point.
    f0 : float
        Objective function value for x0.
    g0 : NDArrayFloat
        Gradient of the objective function for x0.
    lb : NDArrayFloat
        Lower bound vector.
    ub : NDArrayFloat
        Upper bound vector.
    d : NDArrayFloat
        Search direction.
    above_iter : int
        current iteration in optimization process.
    max_steplength : float
        Maximum steplength allowed.
    is_boxed: bool
        Whether all values have both lower and upper bounds.
    sf: ScalarFunction
        Wrapper for the objective function and its gradient.
    ftol_linesearch: float, optional
        Specify a nonnegative tolerance for the sufficient decrease condition in
        `minpack2.dcsrch <https://ftp.mcs.anl.gov/pub/MINPACK-2/csrch/dcsrch.f>`_
        (used for the line search). This is :math:`c_1` in
        the Armijo condition (or Goldstein, Goldstein-Armijo condition) where
        :math:`\alpha_{k}` is the estimated step.

        .. math::

            f(\mathbf{x}_{k}+\alpha_{k}\mathbf{p}_{k})\leq
            f(\mathbf{x}_{k})+c_{1}\alpha_{k}\mathbf{p}_{k}^{\mathrm{T}}
            \nabla f(\mathbf{x}_{k})

        Note that :math:`0 < c_1 < 1`. Usually :math:`c_1` is small, see the Wolfe
        conditions in :cite:t:`nocedalNumericalOptimization1999`.
        In the fortran implementation
        algo 778, it is hardcoded to 1e-3. The default is 1e-4.
    gtol_linesearch: float, optional
        Specify a nonnegative tolerance for the curvature condition in
        `minpack2.dcsrch <https://ftp.mcs.anl.gov/pub/MINPACK-2/csrch/dcsrch.f>`_
        (used for the line search). This is :math:`c_2` in
        the Armijo condition (or Goldstein, Goldstein-Armijo condition) where
        :math:`\alpha_{k}` is the estimated step.

        .. math::

            \left|\mathbf{p}_{k}^{\mathrm {T}}\nabla f(\mathbf{x}_{k}+\alpha_{k}
            \mathbf{p}_{k})\right|\leq c_{2}\left|\mathbf {p}_{k}^{\mathrm{T}}\nabla
            f(\mathbf{x}_{k})\right|

        Note that :math:`0 < c_1 < c_2 < 1`. Usually, :math:`c_2` is
        much larger than :math:`c_2`.
        see :cite:t:`nocedalNumericalOptimization1999`. In the fortran implementation
        algo 778, it is hardcoded to 0.9. The default is 0.9.
    xtol_linesearch: float, optional
        Specify a nonnegative relative tolerance for an acceptable step in the line
        search procedure (see
        `minpack2.dcsrch <https://ftp.mcs.anl.gov/pub/MINPACK-2/csrch/dcsrch.f>`_).
        In the fortran implementation algo 778, it is hardcoded to 0.1.
        The default is 1e-5.
    max_iter : int, optional
            Maximum number of linesearch iterations, by default 30.
    iprint : int, optional
        Controls the frequency of output. ``iprint < 0`` means no output;
        ``iprint = 0``    print only one line at the last iteration;
        ``0 < iprint < 99`` print also f and ``|proj g|`` every iprint iterations;
        ``iprint >= 99``   print details of every iteration except n-vectors;
    logger: Optional[Logger], optional
        :class:`logging.Logger` instance. If None, nothing is displayed, no matter the
        value of `iprint`, by default None.

    Returns
    -------
    Optional[float]
        The step length.

    References
    ----------
    * R. H. Byrd, P. Lu and J. Nocedal. A Limited Memory Algorithm for Bound
      Constrained Optimization, (1995), SIAM Journal on Scientific and
      Statistical Computing, 16, 5, pp. 1190-1208.
    * C. Zhu, R. H. Byrd and J. Nocedal. L-BFGS-B: Algorithm 778: L-BFGS-B,
      FORTRAN routines for large scale bound constrained optimization (1997),
      ACM Transactions on Mathematical Software, 23, 4, pp. 550 - 560.
    * J.L. Morales and J. Nocedal. L-BFGS-B: Remark on Algorithm 778: L-BFGS-B,
      FORTRAN routines for large scale bound constrained optimization (2011),
      ACM Transactions on Mathematical Software, 38, 1.
    """

    # work arrays of the legacy dcsrch routine: one private pair per call
    if isave is None:
        isave = np.zeros((2,), np.intc)
    if dsave is None:
        dsave = np.zeros((13,), np.float64)

    # steplength_0 = 1 if max_steplength > 1 else 0.5 * max_steplength
    max_steplength = max_allowed_steplength(
        x0, d, lb, ub, max_steplength_user, above_iter
    )

    dphi0 = g0.dot(d)

    if above_iter == 0 and not is_boxed:
        steplength_0 = min(1.0 / np.sqrt(d.dot(d)), max_steplength)
    else:
        # never start beyond the largest feasible step (by rounding, it can be an
        # ulp below 1, and dcsrch refuses a start with stp > stpmax)
        steplength_0 = min(1.0, max_steplength)

    # Support for python 3.7 and 3.8: the minpack2 wrapper has been removed from
    # scipy from version 1.12 and replaced with a python implementation.
    # Unfortunately, python 3.7 and 3.8 do not support scipy-1.12
    # So we need to use the old minpack2 Fortran implementation
    is_use_minpack2: bool = Version(spversion) < Version("1.12")

    def phi(alpha: float) -> float:
        """Return the objective function for a steplength of `alpha`"""
        return sf.fun(np.clip(x0 + alpha * d, lb, ub))

    def dphi(alpha: float) -> NDArrayFloat:
        """Return the gradient of `phi` with respect to alpha."""
        return sf.grad(np.clip(x0 + alpha * d, lb, ub)).dot(d)

    task = b"START"
    f_m1 = f0
    # best trial so far: only a point strictly better than the start is accepted
    best_f = f0
    best_stp: Optional[float] = None
    dphi_m1 = dphi0
    _iter = 0

    if not is_use_minpack2:
        # careful, there is an issue in the DCSRRCH.__call__ function. It returns
        # steplength = None when task is a warning while it should not be the case
        # for instance when steplength = max_steplength
        # So we must implement a while loop again.
        # steplength, f0, _, task = dcsrch(
        #     steplength_0, phi0=f0, derphi0=dphi0, maxiter=max_iter
        # )
        dcsrch = sp.optimize._dcsrch.DCSRCH(
            phi, dphi, ftol, gtol, xtol, 0.0, max_steplength
        )

    while _iter < max_iter:
        if is_use_minpack2:  # scipy older than 1.12, uses the Fortran implementation
            with warnings.catch_warnings():
                # optimize.minpack2 might be deprecated but we handle this deprecation
                # for python above 3.8 so no need to raise a warning.
                warnings.filterwarnings("ignore", category=DeprecationWarning)
                steplength, _, dphi0, task = sp.optimize.minpack2.dcsrch(
                    steplength_0,
                    f_m1,
                    dphi_m1,
                    ftol,
                    gtol,
                    xtol,
                    task,
                    0,
                    max_steplength,
                    isave,
                    dsave,
                )
        else:
            # newer version, with a pure python implementation
            steplength, _, dphi0, task = dcsrch._iterate(
                steplength_0, f_m1, dphi_m1, task
            )

        if task[:2] == b"FG":
            steplength_0 = steplength
            f_m1, dphi_m1 = sf.fun_and_grad(np.clip(x0 + steplength * d, lb, ub))
            dphi_m1 = dphi_m1.dot(d)
            if f_m1 < best_f:
                best_f = f_m1
                best_stp = steplength
        else:
            break
        _iter += 1
    else:
        # max_iter reached, the line search did not converge
        task = b"WARNING: dcsrch did not converge within max iterations"

    if steplength is not None:
        if not np.isfinite(steplength) or steplength == 0.0:
            task = b"ERROR"
            return None

    if task[:4] != b"CONV" and task[:4] != b"WARN":
        return None

    if best_stp is None:
        return None
    steplength = best_stp

    task = b"NEW_X"

    if iprint >= 99 and logger is not None and steplength is not None:
        logger.info(
            f"LINE SEARCH {_iter} times; norm of step = "
            f"{steplength * np.linalg.norm(d)}"
        )

    return steplength
