"""
Implement a function to compute the generalized Cauchy point (GCP) for the L-BFGS-B
algorithm, mainly for internal use.

The target of the GCP procedure is to find a step size t such that
x(t) = x0 - t * g is a local minimum of the quadratic function m(x),
where m(x) is a local approximation to the objective function.

First determine a sequence of break points t0=0, t1, t2, ..., tn.
On each interval [t[i-1], t[i]], x is changing linearly.
After passing a break point, one or more coordinates of x will be fixed at the bounds.
We search the first local minimum of m(x) by examining the intervals [t[i-1], t[i]]
sequentially.

Functions
^^^^^^^^^

.. autosummary::
   :toctree: _autosummary

    get_cauchy_point

Reference:
[1] R. H. Byrd, P. Lu, and J. Nocedal (1995). A limited memory algorithm for bound
constrained optimization.
"""

import copy
import logging
from typing import Optional, Tuple

import numpy as np

from lbfgsb.bfgsmats import LBFGSB_MATRICES, bmv
from lbfgsb.types import NDArrayFloat, NDArrayInt


def display_start_point(
    nseg: int,
    f_prime: float,
    f_second: float,
    delta_t: Optional[float],
    delta_t_min: float,
    iprint: int,
    logger: Optional[logging.Logger],
) -> None:
    """
    Display the start point status.

    Parameters
    ----------
    nseg : int
        Number of explored segment.
    f_prime : float
        First derivative.
    f_second : float
        Second derivative.
    delta_t : float
        See Algorithm CP: Computation of the generalized Cauchy point in [1].
    delta_t_min : float
        See Algorithm CP: Computation of the generalized Cauchy point in [1].
    iprint : int, optional
        Controls the frequency of output. ``iprint < 0`` means no output;
        ``iprint = 0``    print only one line at the last iteration;
        ``0 < iprint < 99`` print also f and ``|proj g|`` every iprint iterations;
        ``iprint >= 99``   print details of every iteration except n-vectors;
    logger: Optional[Logger], optional
        :class:`logging.Logger` instance. If None, nothing is displayed, no matter the
        value of `iprint`, by default None.

    """
    if iprint < 100:
        return
    if logger is None:
        return
    logger.info(
        f"Piece    , {nseg},  --f1, f2 at start point , {f_prime} , " f"{f_second}"
    )
    if delta_t is not None:
        logger.info(f"Distance to the next break point =  {delta_t}")
    logger.info(f"Distance to the stationary point =  {delta_t_min}")


def get_cauchy_point(
    x: NDArrayFloat,
    grad: NDArrayFloat,
    lb: NDArrayFloat,
    ub: NDArrayFloat,
    mats: LBFGSB_MATRICES,
    iter: int,
    iprint: int,
    logger: Optional[logging.Logger] = None,
) -> Tuple[NDArrayFloat, NDArrayFloat]:
    r"""
    Computes the generalized Cauchy point (GCP).

    This is the Generalized Cauchy point procedure in section 4 of [1].

    It is defined as the first local minimizer of the quadratic

    .. math::
        \[\langle grad,s\rangle + \frac{1}{2} \langle s,
        (\theta I + WMW^\intercal)s\rangle\]

    along the projected gradient direction .. math::`P_[l,u](x-\theta grad).`

    Parameters
    ----------
    x : NDArrayFloat
        Starting point for the GCP computation.
    grad : NDArrayFloat
        Gradient of fun with respect to x.
    lb : NDArrayFloat
        Lower bound vector.
    ub : NDArrayFloat
        Upper bound vector.
    mats: LBFGSB_MATRICES
        TODO.
    iter: int
        Current iteration.
    iprint : int, optional
        Controls the frequency of output. ``iprint < 0`` means no output;
        ``iprint = 0``    print only one line at the last iteration;
        ``0 < iprint < 99`` print also f and ``|proj g|`` every iprint iterations;
        ``iprint >= 99``   print details of every iteration except n-vectors;
    logger: Optional[Logger], optional
        :class:`logging.Logger` instance. If None, nothing is displayed, no matter the
        value of `iprint`, by default None.

    Returns
    -------
    Tuple[NDArrayFloat, NDArrayFloat]
        The array of Cauchy points and c = W @ (Zc - Zk).

    References
    ----------
    * R. H. Byrd, P. Lu and J. Nocedal. A Limited Memory Algorithm for Bound
      Constrained Optimization, (1995), SIAM Journal on Scientific and
      Statistical Computing, 16, 5, pp. 1190-1208.
    * C. Zhu, R. H. Byrd and J. Nocedal. L-BFGS-B: Algorithm 778: L-BFGS-B,
      FORTRAN routines for large scale bound constrained optimization (1997),
      ACM Transactions on Mathematical Software, 23, 4, pp. 550 - 560.
    * J.L. Morales and J. Nocedal. L-BFGS-B: Remark on Algorithm 778: L-BFGS-B,
      FORTRAN routines for large scale bound constrained optimization (2011),
      ACM Transactions on Mathematical Software, 38, 1.
    """
    # Note: the variable names follow the FORTRAN original implementation
    if iprint >= 99 and logger is not None:
        logger.info("---------------- CAUCHY entered-------------------")

    # machine precision, as in the reference code (f2 = max(epsmch * f2_org, f2))
    eps_f_sec = np.finfo(float).eps
    x_cp: NDArrayFloat = x.copy()

    # To define the breakpoints in each coordinate direction, we compute
    t: NDArrayFloat = np.zeros_like(grad)
    mask = grad != 0
    t[mask] = np.where(
        grad[mask] < 0, (x - ub)[mask] / grad[mask], (x - lb)[mask] / grad[mask]
    )
    t[grad == 0] = np.inf

    # used to store the Cauchy direction `P(x-tg)-x`.
    d = np.where(t == 0, 0.0, -grad)

    # In the end, F is the list of ordered breakpoint indices
    # sort {t;,i = 1,. ..,n} in increasing order to obtain the ordered
    # set {tj :tj <= tj+1 ,j = 1, ...,n}.
    # Keep only the indices where t > 0
    sorted_t_idx: NDArrayInt = np.argsort(t)
    sorted_t_idx = sorted_t_idx[t[sorted_t_idx] > 0]

    # Initialization
    p = mats.W.T @ d  # 2mn operations

    # Initialize c = W'(xcp - x) = 0.
    c: NDArrayFloat = np.zeros(p.size)

    # Initialize f1
    f_prime: float = -d.dot(d)  # n operations

    # Initialize derivative f2.
    f_second: float = -mats.theta * f_prime
    f2_org: float = copy.deepcopy(f_second)

    # Update f2 with - d^{T} @ W @ M @ W^{T} @ d = - p^{T} @ M @ p
    # old way: f2 = f2 - p.dot(M.dot(p))  # O(m^{2}) operations
    # new_way: not at first iteration -> invMfactors and M are worse zero.
    # And cho_solve produces nan so we use bmv
    if mats.use_factor:
        f_second = f_second - p.dot(bmv(mats.invMfactors, p))  # O(m^{2}) operations

    # dtm in the fortran code
    delta_t_min: float = -f_prime / f_second

    # Number of breakpoints
    nbreak = len(sorted_t_idx)
    # Handler the case where there are no breakpoints
    if nbreak == 0:
        # is a zero vector, return with the initial xcp as GCP.
        return x_cp, c

    # iter in the fortran code and b in [1]
    _i = 0
    # break point index (b in section 4 [1])
    ibp: int = sorted_t_idx[_i]
    # value of the smallest breakpoint, t in section 4 [1]
    t_cur: float = t[ibp]
    # previous breakpoint value
    t_old = 0.0

    delta_t: float = t_cur - 0.0

    # Number of the breakpoint segment -> Nseg in Fortran
    nseg: int = 1

    if iprint >= 99 and logger is not None:
        logger.info(f"There are {nbreak} breakpoints ")

    # flag
    is_gpc_found = False

    while _i < len(sorted_t_idx):
        display_start_point(
            nseg, f_prime, f_second, delta_t, delta_t_min, iprint, logger
        )

        if delta_t_min < delta_t:
            is_gpc_found = True
            break

        # Fix one variable and reset the corresponding component of d to zero.
        if d[ibp] > 0:
            x_cp[ibp] = ub[ibp]
        elif d[ibp] < 0:
            x_cp[ibp] = lb[ibp]
        zb = x_cp[ibp] - x[ibp]

        if iprint >= 100 and logger is not None:
            # ibp +1 to match the Fortran code (because index starts at 1)
            logger.info(f"Variable  {ibp + 1} is fixed.")

        c += delta_t * p
        W_b = mats.W[ibp, :]
        g_b = grad[ibp]

        # Update the derivative information
        # 1) Old way
        # f1 += delta_t * f2 + g_b * (g_b + theta * zb - W_b.dot(M.dot(c)))
        # f2 -= g_b * (g_b * theta + W_b.dot(M.dot(2 * p + g_b * W_b)))
        # 2) New way with the cholesky factorization
        f_prime += delta_t * f_second + g_b * (g_b + mats.theta * zb)
        f_second -= g_b * g_b * mats.theta

        # First iteration -> invMfactors and M are worse zero.
        # And cho_solve produces nan
        if mats.use_factor:
            f_prime -= g_b * W_b.dot(bmv(mats.invMfactors, c))
            f_second -= g_b * W_b.dot(bmv(mats.invMfactors, (2 * p + g_b * W_b)))

        # this is a trick of the original FORTRAN code that prevents very low
        # values of f2
        f_second = max(f_second, eps_f_sec * f2_org)

        # Fix one variable and reset the corresponding component of d to zero.
        p += g_b * W_b
        d[ibp] = 0
        delta_t_min = -f_prime / f_second
        t_old = copy.copy(t_cur)

        _i += 1
        try:
            ibp = sorted_t_idx[_i]
            t_cur = t[ibp]
        except IndexError:
            # to ensure that delta_t > delta_t_min and break the while
            t_cur = np.inf

        delta_t = t_cur - t_old
        nseg += 1

    if iprint >= 99 and logger is not None:
        if is_gpc_found:
            logger.info("GCP found in this segment")
            display_start_point(
                nseg, f_prime, f_second, None, delta_t_min, iprint, logger
            )

    delta_t_min = 0 if delta_t_min < 0 else delta_t_min
    t_old += delta_t_min

    # only the variables that are still free move (d is zeroed when a variable is
    # fixed): one fixed at a breakpoint tied with t_cur must stay on its bound
    x_cp[d != 0] = (x + t_old * d)[d != 0]

    c += delta_t_min * p

    if logger is not None:
        if iprint > 100:
            logger.info(f"Cauchy X =  {x_cp}")
        if iprint >= 99:
            logger.info("---------------- exit CAUCHY----------------------")

    return x_cp, c
