"""
@author: Antoine COLLET.

This code is a python port of the famous implementation of Limited-memory
Broyden-Fletcher-Goldfarb-Shanno (L-BFGS), algorithm 778 written in Fortran [2,3]
(last update in 2011).
Note that this is not a wrapper such as minimize in scipy but a complete
reimplementation (nevertheless relying heavily on numpy and scipy to
maintain correct performances).
The original code can be found here: https://dl.acm.org/doi/10.1145/279232.279236

The aim of this reimplementation was threefold. First, familiarize ourselves with
the code, its logic and inner optimizations. Second, gain access to certain
parameters that are hard-coded in the Fortran code and cannot be modified (typically
wolfe conditions parameters for the line search). Third,
implement additional functionalities that require significant modification of
the code core.

Additional features
--------------------
Explain about objective function update on the fly.
TODO: point to the doc of the main routine.
TODO:
https://towardsdatascience.com/numerical-optimization-based-on-the-l-bfgs-method-f6582135b0ca

References
----------
[1] R. H. Byrd, P. Lu and J. Nocedal. A Limited Memory Algorithm for Bound
    Constrained Optimization, (1995), SIAM Journal on Scientific and
    Statistical Computing, 16, 5, pp. 1190-1208.
[2] C. Zhu, R. H. Byrd and J. Nocedal. L-BFGS-B: Algorithm 778: L-BFGS-B,
    FORTRAN routines for large scale bound constrained optimization (1997),
    ACM Transactions on Mathematical Software, 23, 4, pp. 550 - 560.
[3] J.L. Morales and J. Nocedal. L-BFGS-B: Remark on Algorithm 778: L-BFGS-B,
    FORTRAN routines for large scale bound constrained optimization (2011),
    ACM Transactions on Mathematical Software, 38, 1.
"""

import copy
import logging
from collections import deque
from dataclasses import dataclass
from typing import Callable, Deque, Optional, Tuple, Union

import numpy as np
from scipy.optimize import (
    LbfgsInvHessProduct,  # noqa : F401
    OptimizeResult,
)
from typing_extensions import Protocol  # support python 3.7

from lbfgsb.base import (
    clip2bounds,
    count_var_at_bounds,
    display_iter,
    display_results,
    display_start,
    get_bounds,
    is_any_inf,
    projgr,
)
from lbfgsb.bfgsmats import (
    LBFGSB_MATRICES,
    make_X_and_G_respect_strong_wolfe,
    update_lbfgs_matrices,
)
from lbfgsb.cauchy import get_cauchy_point
from lbfgsb.linesearch import line_search
from lbfgsb.scalar_function import ScalarFunction, prepare_scalar_function
from lbfgsb.subspacemin import get_freev, subspace_minimization
from lbfgsb.types import NDArrayFloat


class ObjectiveFunction(Protocol):
    """Protocol for objective function signature."""

    def __call__(self, __x, *args, **kwargs) -> float: ...


class GradientFunction(Protocol):
    """Protocol for gradient signature."""

    def __call__(self, __x, *args, **kwargs) -> NDArrayFloat: ...


@dataclass
class InternalState:
    """Class to keep track of internal state."""

    # keep track of some values (best, init)
    nit = 0
    status = "IDLE."
    task_str = "START"
    is_success = False
    warnflag = 2


def minimize_lbfgsb(
    *,
    x0: NDArrayFloat,
    fun: Optional[ObjectiveFunction] = None,
    args: Tuple = (),
    jac: Optional[Union[GradientFunction, str, bool]] = None,
    update_fun_def: Optional[
        Callable[
            [
                NDArrayFloat,
                float,
                float,
                NDArrayFloat,
                Deque[NDArrayFloat],
                Deque[NDArrayFloat],
            ],
            Tuple[float, float, NDArrayFloat, Deque[NDArrayFloat]],
        ]
    ] = None,
    bounds: Optional[NDArrayFloat] = None,
    checkpoint: Optional[OptimizeResult] = None,
    maxcor: int = 10,
    ftarget: Optional[Union[float, Callable[[], float]]] = None,
    ftol: float = 1e-5,
    gtol: Union[float, Callable[[], float]] = 1e-5,
    maxiter: int = 50,
    eps: float = 1e-8,
    maxfun: int = 15000,
    callback: Optional[Callable] = None,
    maxls: int = 20,
    finite_diff_rel_step: Optional[float] = None,
    max_steplength: float = 1e8,
    ftol_linesearch: float = 1e-3,
    gtol_linesearch: float = 0.9,
    xtol_linesearch: float = 1e-1,
    eps_SY: float = 2.2e-16,
    iprint: int = -1,
    gradient_scaler: Optional[
        Callable[[NDArrayFloat, NDArrayFloat, NDArrayFloat, NDArrayFloat], float]
    ] = None,
    logger: Optional[logging.Logger] = None,
    is_check_factorization: bool = False,
) -> OptimizeResult:
    r"""
    Solves bound constrained optimization problems by using the compact formula
    of the limited memory BFGS updates.

    fun :  Optional[Callable[[NDArrayFloat, Tuple[Any]], float]],
        The objective function to be minimized.

            ``fun(x, *args) -> float``

        where ``x`` is a 1-D array with shape (n,) and ``args``
        is a tuple of the fixed parameters needed to completely
        specify the function. Mandatory if `fun_and_jax` is not specified. The default
        is None.
    x0 : ndarray, shape (n,)
        Initial guess. Array of real elements of size (n,),
        where ``n`` is the number of independent variables.
    args : tuple, optional
        Extra arguments passed to the objective function and its
        derivatives (`fun`, `jac` and `hess` functions).
    jac : {callable,  '2-point', '3-point', 'cs', bool}, optional
        Method for computing the gradient vector.
        If it is a callable, it should be a function that returns the gradient
        vector:

            ``jac(x, *args) -> array_like, shape (n,)``

        where ``x`` is an array with shape (n,) and ``args`` is a tuple with
        the fixed parameters. If `jac` is a Boolean and is True, `fun` is
        assumed to return a tuple ``(f, g)`` containing the objective
        function and the gradient.
        If None or False, the gradient will be estimated using 2-point finite
        difference estimation with an absolute step size.
        Alternatively, the keywords  {'2-point', '3-point', 'cs'} can be used
        to select a finite difference scheme for numerical estimation of the
        gradient with a relative step size. These finite difference schemes
        obey any specified `bounds`.
    update_fun_def: Optional[Callable]
        Function to update the gradient sequence. This is an experimental feature to
        allow changing the objective function definition on the fly. In the first place
        this functionality is dedicated to regularized problems for which the
        regularization weight is computed while optimizing the cost function. In order
        to get a hessian matching the new definition of `fun`, the gradient sequence
        must be updated.

            ``update_fun_def(x, f0, f0_old, grad, x_deque, grad_deque)
            -> f0, f0_old, grad, updated grad_deque``

    bounds : sequence or `Bounds`, optional
        Bounds on variables for Nelder-Mead, L-BFGS-B, TNC, SLSQP, Powell, and
        trust-constr methods. There are two ways to specify the bounds:

            1. Instance of `Bounds` class.
            2. Sequence of ``(min, max)`` pairs for each element in `x`. None
               is used to specify no bound.
    checkpoint: Optional[OptimizeResult]
        OptimizeResult instance. This parameter allow to pass the output of a previous
        `minimize_lbfgsb` run (a 'checkpoint') and restart the solver without losing
        the sequence of adjusted values and associated gradients (hence the
        approximation of the inverse Hessian). The last objective function and
        associated gradient is also used. Of course the objective function definition
        must remain the same between the two optimization rounds.
        It can be useful if the optimization has been stopped too early,
        if some stop criteria or other parameters must be changed (e.g., `maxcor`
        or `ftol`) or if some scaling must be performed before starting L-BFGS-B. It
        avoids recalculating some expensive objective functions and gradients.
        This is a unique feature among L-BFGS-B implementations. The default is None.
    maxcor : int
        The maximum number of variable metric corrections used to
        define the limited memory matrix. (The limited memory BFGS
        method does not store the full hessian but uses this many terms
        in an approximation to it.)
    ftarget: Optional[Union[float, Callable]] = None
        Target objective function (stop criterion) .
        The iteration stops when ``f^{k+1} <= fmin``.
        If Callable, it is called only once after the first function and gradient
        computation. This option is available so that the stop criteria could be
        adatped based on the first objective function value, i.e.,
        this is particularly useful if a scaling is applied. If None, the stop criterion
        is ignored. The default is None.
    ftol : float
        Objective function minimum change (stop criterion). The iteration stops
        when ``(f^k - f^{k+1})/max{|f^k|,|f^{k+1}|,1} <= ftol``.
        In the original Fortran algorithm, this corresponds to `factr * epsmch`.
        Typical values for `ftol` on a computer with 15 digits of accuracy in double
        precision are as follows: `ftol` = 5e-3 for low accuracy; `ftol` = 5e-8
        for moderate accuracy; `ftol` = 5e-14 for extremely high accuracy.
        If `ftol` = 0, the test will stop the algorithm only if the objective function
        remains unchanged after one iteration. The default is 1e-5.
    gtol : Union[float, Callable]
        Projected gradient mininmum value (stop criterion).
        The iteration will stop when ``max{|proj g_i | i = 1, ..., n}
        <= gtol`` where ``pg_i`` is the i-th component of the
        projected gradient.
        As for gtol, if Callable, it is called only once after the first function
        and gradient computation. This option is available so that the stop criteria
        could be adatped based on the first objective function value, i.e.,
        this is particularly useful if a scaling is applied. The default is 1e-5.
    eps : float or ndarray
        If `jac is None` the absolute step size used for numerical
        approximation of the jacobian via forward differences.
    maxfun : int
        Maximum number of function evaluations. Note that this function
        may violate the limit because of evaluating gradients by numerical
        differentiation.
        Note that interruptions due to maxfun are postponed
        until the completion of a minimization iteration, consequently it might
        stop after maxfun has been reached.
    maxiter : int
        Maximum number of iterations.
    callback : callable, optional
        Called after each iteration. It is a callable with
        the signature:

            ``callback(xk, OptimizeResult state) -> bool``

        where ``xk`` is the current parameter vector. and ``state``
        is an `OptimizeResult` object, with the same fields
        as the ones from the return. If callback returns True
        the algorithm execution is terminated.
    maxls : int, optional
        Maximum number of line search steps (per iteration). Default is 20.
    finite_diff_rel_step : None or array_like, optional
        If `jac in ['2-point', '3-point', 'cs']` the relative step size to
        use for numerical approximation of the jacobian. The absolute step
        size is computed as ``h = rel_step * sign(x) * max(1, abs(x))``,
        possibly adjusted to fit into the bounds. For ``method='3-point'``
        the sign of `h` is ignored. If None (default) then step is selected
        automatically.
    max_steplength: float
        Maximum steplength allowed. The default is 1e8.
    ftol_linesearch: float, optional
        Specify a nonnegative tolerance for the sufficient decrease condition in
        `minpack2.dcsrch <https://ftp.mcs.anl.gov/pub/MINPACK-2/csrch/dcsrch.f>`_
        (used for the line search). This is :math:`c_1` in
        the Armijo condition (or Goldstein, Goldstein-Armijo condition) where
        :math:`\alpha_{k}` is the estimated step.

        .. math::

            f(\mathbf{x}_{k}+\alpha_{k}\mathbf{p}_{k})\leq
            f(\mathbf{x}_{k})+c_{1}\alpha_{k}\mathbf{p}_{k}^{\mathrm{T}}
            \nabla f(\mathbf{x}_{k})

        Note that :math:`0 < c_1 < 1`. Usually :math:`c_1` is small, see the Wolfe
        conditions in :cite:t:`nocedalNumericalOptimization1999`.
        In the fortran implementation
        algo 778, it is hardcoded to 1e-3. The default is 1e-4.
    gtol_linesearch: float, optional
        Specify a nonnegative tolerance for the curvature condition in
        `minpack2.dcsrch <https://ftp.mcs.anl.gov/pub/MINPACK-2/csrch/dcsrch.f>`_
        (used for the line search). This is :math:`c_2` in
        the Armijo condition (or Goldstein, Goldstein-Armijo condition) where
        :math:`\alpha_{k}` is the estimated step.

        .. math::

            \left|\mathbf{p}_{k}^{\mathrm {T}}\nabla f(\mathbf{x}_{k}+\alpha_{k}
            \mathbf{p}_{k})\right|\leq c_{2}\left|\mathbf {p}_{k}^{\mathrm{T}}\nabla
            f(\mathbf{x}_{k})\right|

        Note that :math:`0 < c_1 < c_2 < 1`. Usually, :math:`c_2` is
        much larger than :math:`c_2`.
        see :cite:t:`nocedalNumericalOptimization1999`. In the fortran implementation
        algo 778, it is hardcoded to 0.9. The default is 0.9.
    xtol_linesearch: float, optional
        Specify a nonnegative relative tolerance for an acceptable step in the line
        search procedure (see
        `minpack2.dcsrch <https://ftp.mcs.anl.gov/pub/MINPACK-2/csrch/dcsrch.f>`_).
        In the fortran implementation algo 778, it is hardcoded to 0.1.
        The default is 0.1.
        See :func:`line_search` parameters.
    eps_SY: float
        Parameter used for updating the L-BFGS matrices. The default is 2.2e-16.
    iprint : int, optional
        Controls the frequency of output. ``iprint < 0`` means no output;
        ``iprint = 0``    print only one line at the last iteration;
        ``0 < iprint < 99`` print also f and ``|proj g|`` every iprint iterations;
        ``iprint >= 99``   print details of every iteration except n-vectors;
    gradient_scaler: Optional[Callable]]
        Optional function that calculates a scaling factor for the initial gradient to
        be used in the rest of the optimization. This is still under investigation, but
        the initial gradient scale seems to have a lot of influence on the optimization.
        If None, the scaling factor is set to 1.0 (no scaling). The default is None.
    logger: Optional[Logger], optional
        :class:`logging.Logger` instance. If None, nothing is displayed, no matter the
        value of `iprint`, by default None.
    is_check_factorization: bool
        For development purposes only, leave to False. The default is False.

    Returns
    -------
    OptimizeResult
        Wrapper for optimization results (from scipy).

    References
    ----------
    * R. H. Byrd, P. Lu and J. Nocedal. A Limited Memory Algorithm for Bound
      Constrained Optimization, (1995), SIAM Journal on Scientific and
      Statistical Computing, 16, 5, pp. 1190-1208.
    * C. Zhu, R. H. Byrd and J. Nocedal. L-BFGS-B: Algorithm 778: L-BFGS-B,
      FORTRAN routines for large scale bound constrained optimization (1997),
      ACM Transactions on Mathematical Software, 23, 4, pp. 550 - 560.
    * J.L. Morales and J. Nocedal. L-BFGS-B: Remark on Algorithm 778: L-BFGS-B,
      FORTRAN routines for large scale bound constrained optimization (2011),
      ACM Transactions on Mathematical Software, 38, 1.
    """
    lb, ub = get_bounds(x0, bounds)
    max_steplength_user: float = copy.copy(max_steplength)

    # True if all values have lower and upper bounds
    is_boxed: bool = not is_any_inf([lb, ub])

    # applying the bounds to the initial guess x0
    n = x0.size
    x = clip2bounds(x0, lb, ub)

    # Some display about the problem at hand. The display depends on the value of iprint
    display_start(
        np.finfo(float).eps, n, maxcor, count_var_at_bounds(x, lb, ub), iprint
    )

    X, G = initialize_X_and_G(x, checkpoint, maxcor)

    # Initialization of the matrices
    mats = LBFGSB_MATRICES(n)

    # wrapper storing the calls to f and g and handling finite difference approximation
    sf: ScalarFunction = prepare_scalar_function(
        fun,
        x,
        jac=jac,
        args=args,
        epsilon=eps,
        bounds=(lb, ub),
        finite_diff_rel_step=finite_diff_rel_step,
    )

    # restore the number of iterations and objective function evaluation
    if checkpoint is not None:
        sf.nfev = checkpoint.nfev
        sf.ngev = checkpoint.njev
        # fun, jac and the gradient differences of a checkpoint are scaled values:
        # keep the factor they were scaled with
        sf.scaling_factor = checkpoint.get("scaling_factor", 1.0)

    # First evaluation of the objective function if no checkpoint provided
    if checkpoint is None:
        f0 = sf.fun(x)
    else:
        f0 = checkpoint.fun

    # potential update of stop criterion
    _ftarget: Optional[float] = (
        ftarget() if callable(ftarget) else ftarget  # type: ignore
    )
    _gtol: float = gtol() if callable(gtol) else gtol  # type: ignore

    # Create an internal state instance
    istate = InternalState()

    if checkpoint is not None:
        istate.nit = checkpoint.nit

    # early check of stop criterion -> Extreme case in which x0 satisfies the
    # criterion, then no optimization is needed and one does not need to compute
    # anything else.
    if is_f0_target_reached(f0 / sf.scaling_factor, _ftarget, istate):
        # leave the optimization routine
        if checkpoint is None:
            if len(X) == 0:
                X.append(x)
                G.append(np.zeros_like(x))
            return OptimizeResult(
                fun=f0,
                jac=G[0],
                nfev=sf.nfev,
                njev=sf.ngev,
                nit=istate.nit,
                status=istate.warnflag,
                message=istate.task_str,
                x=x,
                success=istate.is_success,
                scaling_factor=sf.scaling_factor,
                hess_inv=LbfgsInvHessProduct(
                    np.diff(np.array(X), axis=0), np.diff(np.array(G), axis=0)
                ),
            )
        else:
            return OptimizeResult(
                fun=f0,
                jac=checkpoint.jac,
                nfev=sf.nfev,
                njev=sf.ngev,
                nit=istate.nit,
                status=istate.warnflag,
                message=istate.task_str,
                x=x,
                success=istate.is_success,
                scaling_factor=sf.scaling_factor,
                hess_inv=LbfgsInvHessProduct(
                    checkpoint.hess_inv.sk[-maxcor:], checkpoint.hess_inv.yk[-maxcor:]
                ),
            )

    # Compute the first gradient if no checkpoint provided
    if checkpoint is None:
        grad = sf.grad(x)
    else:
        # private copy: this array becomes an element of the stored gradient sequence
        grad = np.copy(checkpoint.jac)

    # scale the initial gradient and consequently the objective function
    # this is optional and needs to be investigated and documented.
    if gradient_scaler is not None and checkpoint is None:
        sf.scaling_factor = gradient_scaler(x, grad, lb, ub)

        if logger is not None:
            logger.info(f"scaling factor = {sf.scaling_factor:.2e}")

    # print(sf.scaling_factor)

    if checkpoint is None:
        f0 *= sf.scaling_factor
        grad = grad * sf.scaling_factor
    # Note, no need to further update anything because the scaling is handled by the
    # ScalarFunction instance

    # perform an early potential update of the objective function definition and
    # upgrade the gradient and the past sequence of gradients accordingly
    if update_fun_def is not None:
        f0, f0_old, grad, G = update_fun_def(x, f0, copy.copy(f0), grad, X, G)

    if len(X) > 0:
        # only happens if checkpoint is provided (L-BFGS-B restart)
        if update_fun_def is not None:
            # the gradient sequence may have been rewritten: filter it
            X, G = make_X_and_G_respect_strong_wolfe(X, G, eps_SY, logger=logger)
        mats = update_lbfgs_matrices(
            x.copy(),  # copy otherwise x might be changed in X when updated
            grad,
            X,
            G,
            maxcor,
            mats,
            is_force_update=False,
            eps=eps_SY,
            is_check_factorization=is_check_factorization,
        )
    else:
        # Store first res to X and G
        X.append(np.copy(x))
        G.append(grad)

    # For now the free variables at the cauchy points is an empty set
    free_vars = np.array([], dtype=np.int_)

    # Check the infinity norm of the projected gradient
    sbgnrm = projgr(x, grad, lb, ub)
    display_iter(istate.nit, sbgnrm, f0, iprint, logger=logger)

    # bool indicating if results of the current iteration have been displayed. It
    # avoid duplicates for the last round.
    has_displayed_results = False

    # Note that interruptions due to maxfun are postponed
    # until the completion of the current minimization iteration.
    while (
        projgr(x, grad, lb, ub) > _gtol
        and istate.nit < maxiter
        and sf.nfev < maxfun
        and not istate.is_success
    ):
        if iprint > 99 and logger is not None:
            logger.info("\n")
            logger.info(f"ITERATION {istate.nit + 1}\n")

        f0_old = copy.copy(f0)

        # find cauchy point
        x_cp, c = get_cauchy_point(
            x,
            grad,
            lb,
            ub,
            mats,
            istate.nit,
            iprint,
            logger,
        )

        # Get the free variables for the GCP
        free_vars, Z, A = get_freev(x_cp, lb, ub, istate.nit, free_vars, iprint, logger)

        # subspace minimization: find the search direction for the minimization problem
        xbar: NDArrayFloat = subspace_minimization(
            x,
            x_cp,
            free_vars,
            Z,
            A,
            c,
            grad,
            lb,
            ub,
            mats,
            is_check_factorizations=is_check_factorization,
        )
        d = xbar - x

        steplength = line_search(
            x,
            f0,
            grad,
            d,
            lb,
            ub,
            istate.nit,
            max_steplength_user,
            is_boxed,
            sf,
            ftol_linesearch,
            gtol_linesearch,
            xtol_linesearch,
            # The maximum number of function evaluation in linesearch must take into
            # account maxfun and the number of call already performed.
            min(maxls, maxfun - sf.nfev),
            iprint,
            logger,
        )
        if steplength is None:
            if len(X) == 1:
                # Hessian already rebooted: abort.
                istate.task_str = "ABNORMAL_TERMINATION_IN_LNSRCH"
                istate.warnflag = 2
                istate.is_success = False
                break  # leave the while and finish the program.
            else:
                istate.task_str = "RESTART_FROM_LNSRCH"
                # Keep only the last correction
                X = Deque([X[-1]])
                G = Deque([G[-1]])
                # Reboot BFGS-Hessian
                mats = LBFGSB_MATRICES(n)
        else:
            # x update
            x = np.clip(x + steplength * d, lb, ub)

            # new evaluation -> normally, the function has been updated in
            # the linesearch step
            f0, grad = sf.fun_and_grad(x)

            if update_fun_def is None:
                if is_f0_target_reached(f0 / sf.scaling_factor, _ftarget, istate):
                    break  # the while loop
                elif is_f0_min_change_reached(f0, f0_old, ftol, istate):
                    break  # the while loop

            # perform a potential update of the objective function definition and
            # upgrade the gradient and the past sequence of gradients accordingly
            else:
                f0, f0_old, grad, G = update_fun_def(x, f0, f0_old, grad, X, G)

                # We must check if the updated G satisfy the strong wolfe condition.
                # This comes before the stop criteria so that a result returned from
                # here never carries unfiltered pairs.
                X, G = make_X_and_G_respect_strong_wolfe(X, G, eps_SY, logger=logger)

                # Check stop criterion: minimum relative change in the
                # objective function
                if is_f0_min_change_reached(f0, f0_old, ftol, istate):
                    break  # the while loop

                # Check stop criterion: minimum objective function value
                elif is_f0_target_reached(f0 / sf.scaling_factor, _ftarget, istate):
                    break  # the while loop

            mats = update_lbfgs_matrices(
                x.copy(),  # copy otherwise x might be changed in X when updated
                grad,
                X,
                G,
                maxcor,
                mats,
                is_force_update=False,
                eps=eps_SY,
                is_check_factorization=is_check_factorization,
            )

            # callback is a user defined mechanism to stop optimization
            # if callback returns True, then it stops.
            # Note: no need to callback if an other stop criterion has already been
            # reached (istate.is_success)
            if callback is not None and not istate.is_success:
                if callback(
                    np.copy(x),
                    OptimizeResult(
                        fun=f0,
                        jac=grad,
                        nfev=sf.nfev,
                        njev=sf.ngev,
                        nit=istate.nit + 1,
                        status=istate.warnflag,
                        message=istate.task_str,
                        x=np.copy(x),
                        success=istate.is_success,
                        scaling_factor=sf.scaling_factor,
                        hess_inv=LbfgsInvHessProduct(
                            np.atleast_2d(np.diff(np.array(X), axis=0)),
                            np.atleast_2d(np.diff(np.array(G), axis=0)),
                        ),
                    ),
                ):
                    istate.task_str = "STOP: USER CALLBACK"
                    istate.is_success = True

        display_iter(istate.nit + 1, projgr(x, grad, lb, ub), f0, iprint, logger)

        # Result display
        has_displayed_results = display_results(
            istate.nit + 1, maxiter, x, grad, lb, ub, f0, _gtol, False, iprint, logger
        )

        istate.nit += 1

    # Final display. If is_success, then it already happened
    if not has_displayed_results:
        display_results(
            istate.nit, maxiter, x, grad, lb, ub, f0, _gtol, True, iprint, logger
        )

    if projgr(x, grad, lb, ub) <= _gtol:
        istate.task_str = "CONVERGENCE: NORM_OF_PROJECTED_GRADIENT_<=_PGTOL"
        istate.is_success = True
        istate.warnflag = 1
    elif istate.nit >= maxiter:
        istate.task_str = "STOP: TOTAL NO. of ITERATIONS REACHED LIMIT"
        istate.is_success = True
        istate.warnflag = 1
    elif sf.nfev >= maxfun:
        istate.task_str = "STOP: TOTAL NO. of f AND g EVALUATIONS EXCEEDS LIMIT"
        istate.is_success = True
        istate.warnflag = 1

    # error: b'ERROR: STPMAX .LT. STPMIN'
    return OptimizeResult(
        fun=f0,
        jac=grad,
        nfev=sf.nfev,
        njev=sf.ngev,
        nit=istate.nit,
        status=istate.warnflag,
        message=istate.task_str,
        x=x,
        success=istate.is_success,
        scaling_factor=sf.scaling_factor,
        hess_inv=LbfgsInvHessProduct(
            np.atleast_2d(np.diff(np.array(X), axis=0)),
            np.atleast_2d(np.diff(np.array(G), axis=0)),
        ),
    )


def initialize_X_and_G(
    x: NDArrayFloat, checkpoint: Optional[OptimizeResult], maxcor: int
) -> Tuple[Deque[NDArrayFloat], Deque[NDArrayFloat]]:
    """
    Initialize the sequence of adjusted values and associated gradients.

    This routine is mainly dedicated to restore the sequence from a checkpoint.
    The sequence is stored in the `hess_inv` attribute as "sk" and "yk" which
    are differences, e.g., sk = np.atleast_2d(np.diff(np.array(X), axis=0)).

    Parameters
    ----------
    x : NDArrayFloat
        Adjusted values.
    checkpoint : Optional[OptimizeResult]
        Optional checkpoint (see solver restart).
    maxcor : int
        Maximum number of corrections stored.

    Returns
    -------
    Tuple[Deque[NDArrayFloat], Deque[NDArrayFloat]]
        X and G.
    """
    # Initialize X and G
    # Deque = similar to list but with faster operations to remove and add
    # values to extremities
    X: Deque[NDArrayFloat] = deque()
    G: Deque[NDArrayFloat] = deque()

    # if it is a L-BFGS-B restart (checkpoint is provided), then X and G are restored
    # from x, jac and the sequence of differences sk and yk stored in the inverse
    # Hessian approximation instance (LbfgsInvHessProduct).
    if checkpoint is None:
        return X, G

    # x0 and checkpoint.x should be the same otherwisee there is an issue
    try:
        np.testing.assert_equal(x, checkpoint.x)
    except AssertionError as e:
        raise ValueError(
            "When 'checkpoint' is provided (L-BFGS-B restart), x0 and checkpoint.x"
            " should be equal!"
        ) from e
    n_corrs, n = checkpoint.hess_inv.sk.shape
    if n_corrs == 0:
        return X, G

    if n != x.size:
        raise ValueError(
            f"The size of correction vector ({n}) does"
            f" not match the size of x ({x.size})!"
        )
    # restore the past X and G
    for x, g in zip(
        (checkpoint.x - np.cumsum(checkpoint.hess_inv.sk[::-1], axis=0))[::-1],
        (checkpoint.jac - np.cumsum(checkpoint.hess_inv.yk[::-1], axis=0))[::-1],
    ):
        if len(X) > maxcor:
            X.popleft()
            G.popleft()
        X.append(x)
        G.append(g)
    # at this point, X and G do not have x nor jac -> it is added a bit later
    return X, G


def is_f0_min_change_reached(
    f0: float, f0_old: float, ftol: float, istate: InternalState
) -> bool:
    """
    Return whether the minimum obj fun change has been reached.

    It updates the internal state.
    """
    if (f0_old - f0) / max(abs(f0_old), abs(f0), 1) < ftol:
        istate.task_str = "CONVERGENCE: REL_REDUCTION_OF_F_<=_FTOL"
        istate.is_success = True
        istate.warnflag = 0
        return True
    return False


def is_f0_target_reached(
    f0: float, ftarget: Optional[float], istate: InternalState
) -> bool:
    """
    Return whether the obj fun target has been reached.

    It updates the internal state.
    """
    if ftarget is None:
        return False
    if f0 > ftarget:
        return False
    istate.task_str = "CONVERGENCE: F_<=_TARGET"
    istate.is_success = True
    istate.warnflag = 0
    return True
