"""
This code is a python port of the famous implementation of Limited-memory
Broyden-Fletcher-Goldfarb-Shanno (L-BFGS), algorithm 778 written in Fortran [2,3]
(last update in 2011).
Note that this is not a wrapper such as minimize in scipy but a complete
reimplementation (pure python).
The original code can be found here: https://dl.acm.org/doi/10.1145/279232.279236

The aim of this reimplementation was threefold. First, familiarize ourselves with
the code, its logic and inner optimizations. Second, gain access to certain
parameters that are hard-coded in the Fortran code and cannot be modified (typically
wolfe conditions parameters for the line search). Third,
implement additional functionalities that require significant modification of
the code core.

Main interface
^^^^^^^^^^^^^^

Interface for scalar function minimization with L-BFGS-B.

.. autosummary::
   :toctree: _autosummary

    minimize_lbfgsb

Utilitairies
^^^^^^^^^^^^

Additional utilitairy functions to work with inputs or outputs.

.. autosummary::
   :toctree: _autosummary

    extract_hess_inv_diag

Initial gradient scalers
^^^^^^^^^^^^^^^^^^^^^^^^

Functions to scale the initial gradient (impacts the optimization).

.. autosummary::
   :toctree: _autosummary

    get_gradient_projection_unit_scaling


Benchmark functions
^^^^^^^^^^^^^^^^^^^

Provide the following function and their gradients to benchmark our implementation.

.. autosummary::
   :toctree: _autosummary

    ackley
    ackley_grad
    beale
    beale_grad
    griewank
    griewank_grad
    quartic
    quartic_grad
    rastrigin
    rastrigin_grad
    rosenbrock
    rosenbrock_grad
    sphere
    sphere_grad
    styblinski_tang
    styblinski_tang_grad

Inner functions
^^^^^^^^^^^^^^^

Inner functions of L-BFGS-B.

.. autosummary::
   :toctree: _autosummary

    base
    bfgsmats
    cauchy
    linesearch
    scalar_function
    subspacemin


References
----------
[1] R. H. Byrd, P. Lu and J. Nocedal. A Limited Memory Algorithm for Bound
    Constrained Optimization, (1995), SIAM Journal on Scientific and
    Statistical Computing, 16, 5, pp. 1190-1208.
[2] C. Zhu, R. H. Byrd and J. Nocedal. L-BFGS-B: Algorithm 778: L-BFGS-B,
    FORTRAN routines for large scale bound constrained optimization (1997),
    ACM Transactions on Mathematical Software, 23, 4, pp. 550 - 560.
[3] J.L. Morales and J. Nocedal. L-BFGS-B: Remark on Algorithm 778: L-BFGS-B,
    FORTRAN routines for large scale bound constrained optimization (2011),
    ACM Transactions on Mathematical Software, 38, 1.

"""

from lbfgsb import base, bfgsmats, cauchy, linesearch, scalar_function, subspacemin
from lbfgsb.__about__ import __author__, __email__, __version__
from lbfgsb.benchmarks import (
    ackley,
    ackley_grad,
    beale,
    beale_grad,
    griewank,
    griewank_grad,
    quartic,
    quartic_grad,
    rastrigin,
    rastrigin_grad,
    rosenbrock,
    rosenbrock_grad,
    sphere,
    sphere_grad,
    styblinski_tang,
    styblinski_tang_grad,
)
from lbfgsb.main import InternalState, minimize_lbfgsb
from lbfgsb.utils import extract_hess_inv_diag, get_gradient_projection_unit_scaling

__all__ = [
    "minimize_lbfgsb",
    "extract_hess_inv_diag",
    "__author__",
    "__email__",
    "__version__",
    "ackley",
    "ackley_grad",
    "beale",
    "beale_grad",
    "griewank",
    "griewank_grad",
    "quartic",
    "quartic_grad",
    "rastrigin",
    "rastrigin_grad",
    "rosenbrock",
    "rosenbrock_grad",
    "sphere",
    "sphere_grad",
    "styblinski_tang",
    "styblinski_tang_grad",
    "base",
    "bfgsmats",
    "cauchy",
    "linesearch",
    "scalar_function",
    "subspacemin",
    "get_gradient_projection_unit_scaling",
    "InternalState",
]
