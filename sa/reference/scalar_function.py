import numpy as np
from scipy.optimize._numdiff import approx_derivative

FD_METHODS = ("2-point", "3-point", "cs")


class ScalarFunction:
    """Scalar function and its derivatives.

    This class defines a scalar function F: R^n->R and methods for
    computing or approximating its first and second derivatives.

    Parameters
    ----------
    fun : callable
        evaluates the scalar function. Must be of the form ``fun(x, *args)``,
        where ``x`` is the argument in the form of a 1-D array and ``args`` is
        a tuple of any additional fixed parameters needed to completely specify
        the function. Should return a scalar.
    x0 : array-like
        Provides an initial set of variables for evaluating fun. Array of real
        elements of size (n,), where 'n' is the number of independent
        variables.
    args : tuple, optional
        Any additional fixed parameters needed to completely specify the scalar
        function.
    grad : {callable, '2-point', '3-point', 'cs'}
        Method for computing the gradient vector.
        If it is a callable, it should be a function that returns the gradient
        vector:

            ``grad(x, *args) -> array_like, shape (n,)``

        where ``x`` is an array with shape (n,) and ``args`` is a tuple with
        the fixed parameters.
        Alternatively, the keywords  {'2-point', '3-point', 'cs'} can be used
        to select a finite difference scheme for numerical estimation of the
        gradient with a relative step size. These finite difference schemes
        obey any specified `bounds`.
    finite_diff_rel_step : None or array_like
        Relative step size to use. The absolute step size is computed as
        ``h = finite_diff_rel_step * sign(x0) * max(1, abs(x0))``, possibly
        adjusted to fit into the bounds. For ``method='3-point'`` the sign
        of `h` is ignored. If None then finite_diff_rel_step is selected
        automatically,
    finite_diff_bounds : tuple of array_like
        Lower and upper bounds on independent variables. Defaults to no bounds,
        (-np.inf, np.inf). Each bound must match the size of `x0` or be a
        scalar, in the latter case the bound will be the same for all
        variables. Use it to limit the range of function evaluation.
    epsilon : None or array_like, optional
        Absolute step size to use, possibly adjusted to fit into the bounds.
        For ``method='3-point'`` the sign of `epsilon` is ignored. By default
        relative steps are used, only if ``epsilon is not None`` are absolute
        steps used.

    Notes
    -----
    This class implements a memoization logic. There are methods `fun`,
    `grad`, and corresponding attributes `f`, `g`. The following
    things should be considered:

        1. Use only public methods `fun` and `grad`.
        2. After one of the methods is called, the corresponding attribute
           will be set. However, a subsequent call with a different argument
           of *any* of the methods may overwrite the attribute.
    """

    def __init__(
        self,
        fun,
        x0,
        args,
        grad,
        finite_diff_rel_step,
        finite_diff_bounds,
        epsilon=None,
    ):
        if not callable(grad) and grad not in FD_METHODS:
            raise ValueError(f"`grad` must be either callable or one of {FD_METHODS}.")

        # the astype call ensures that self.x is a copy of x0
        self.x = np.atleast_1d(x0).astype(float)
        self.n = self.x.size
        self.nfev = 0
        self.ngev = 0
        self.nhev = 0
        self.f_updated = False
        self.g_updated = False
        self.H_updated = False

        self.scaling_factor = 1.0

        self._lowest_x = None
        self._lowest_f = np.inf

        finite_diff_options = {}
        if grad in FD_METHODS:
            finite_diff_options["method"] = grad
            finite_diff_options["rel_step"] = finite_diff_rel_step
            finite_diff_options["abs_step"] = epsilon
            finite_diff_options["bounds"] = finite_diff_bounds

        # Function evaluation
        def fun_wrapped(x):
            self.nfev += 1
            # Send a copy because the user may overwrite it.
            # Overwriting results in undefined behaviour because
            # fun(self.x) will change self.x, with the two no longer linked.
            fx = fun(np.copy(x), *args)
            # Make sure the function returns a true scalar
            if not np.isscalar(fx):
                try:
                    fx = np.asarray(fx).item()
                except (TypeError, ValueError) as e:
                    raise ValueError(
                        "The user-provided objective function "
                        "must return a scalar value."
                    ) from e

            if fx < self._lowest_f:
                self._lowest_x = x
                self._lowest_f = fx

            return fx

        def update_fun():
            self.f = fun_wrapped(self.x)

        self._update_fun_impl = update_fun

        # Gradient evaluation
        if callable(grad):

            def grad_wrapped(x):
                self.ngev += 1
                return np.atleast_1d(grad(np.copy(x), *args))

            def update_grad():
                self.g = grad_wrapped(self.x)

        elif grad in FD_METHODS:

            def update_grad():
                self._update_fun()
                self.ngev += 1
                self.g = approx_derivative(
                    fun_wrapped, self.x, f0=self.f, **finite_diff_options
                )

        self._update_grad_impl = update_grad

    def update_x(self, x) -> None:
        # ensure that self.x is a copy of x. Don't store a reference
        # otherwise the memoization doesn't work properly.
        self.x = np.atleast_1d(x).astype(float)
        self.f_updated = False
        self.g_updated = False
        self.H_updated = False

    def _update_fun(self) -> None:
        if not self.f_updated:
            self._update_fun_impl()
            self.f_updated = True

    def _update_grad(self) -> None:
        if not self.g_updated:
            self._update_grad_impl()
            self.g_updated = True

    def fun(self, x) -> float:
        if not np.array_equal(x, self.x):
            self.update_x(x)
        self._update_fun()
        return self.f * self.scaling_factor

    def grad(self, x):
        if not np.array_equal(x, self.x):
            self.update_x(x)
        self._update_grad()
        return self.g * self.scaling_factor

    def fun_and_grad(self, x):
        if not np.array_equal(x, self.x):
            self.update_x(x)
        self._update_fun()
        self._update_grad()
        return self.f * self.scaling_factor, self.g * self.scaling_factor


def prepare_scalar_function(
    fun,
    x0,
    jac=None,
    args=(),
    bounds=None,
    epsilon=None,
    finite_diff_rel_step=None,
) -> ScalarFunction:
    """
    Creates a ScalarFunction object for use with scalar minimizers
    (BFGS/LBFGSB/SLSQP/TNC/CG/etc).

    Parameters
    ----------
    fun : callable
        The objective function to be minimized.

            ``fun(x, *args) -> float``

        where ``x`` is an 1-D array with shape (n,) and ``args``
        is a tuple of the fixed parameters needed to completely
        specify the function.
    x0 : ndarray, shape (n,)
        Initial guess. Array of real elements of size (n,),
        where 'n' is the number of independent variables.
    jac : {callable,  '2-point', '3-point', 'cs', None}, optional
        Method for computing the gradient vector. If it is a callable, it
        should be a function that returns the gradient vector:

            ``jac(x, *args) -> array_like, shape (n,)``

        If one of `{'2-point', '3-point', 'cs'}` is selected then the gradient
        is calculated with a relative step for finite differences. If `None`,
        then two-point finite differences with an absolute step is used.
    args : tuple, optional
        Extra arguments passed to the objective function and its
        derivatives (`fun`, `jac` functions).
    bounds : sequence, optional
        Bounds on variables. 'new-style' bounds are required.
    eps : float or ndarray
        If `jac is None` the absolute step size used for numerical
        approximation of the jacobian via forward differences.
    finite_diff_rel_step : None or array_like, optional
        If `jac in ['2-point', '3-point', 'cs']` the relative step size to
        use for numerical approximation of the jacobian. The absolute step
        size is computed as ``h = rel_step * sign(x0) * max(1, abs(x0))``,
        possibly adjusted to fit into the bounds. For ``method='3-point'``
        the sign of `h` is ignored. If None (default) then step is selected
        automatically.

    Returns
    -------
    sf : ScalarFunction
    """
    if callable(jac):
        grad = jac
    elif jac in FD_METHODS:
        # epsilon is set to None so that ScalarFunction is made to use
        # rel_step
        epsilon = None
        grad = jac
    elif jac is None:
        # default (jac is None) is to do 2-point finite differences with
        # absolute step size. ScalarFunction has to be provided an
        # epsilon value that is not None to use absolute steps. This is
        # normally the case from most _minimize* methods.
        grad = "2-point"
        epsilon = epsilon
    else:
        raise ValueError(
            "jac must be callable, None or among ['2-point', '3-point', 'cs']."
        )

    if bounds is None:
        bounds = (-np.inf, np.inf)

    # ScalarFunction caches. Reuse of fun(x) during grad
    # calculation reduces overall function evaluations.
    sf = ScalarFunction(
        fun, x0, args, grad, finite_diff_rel_step, bounds, epsilon=epsilon
    )

    return sf
