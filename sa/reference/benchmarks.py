"""
Provide the following benchmark functions and their gradients.
- ackley
- griewank
- quadratic
- rastrigin
- rosenbrook
- sphere
- styblinski_tang
"""

import numpy as np

from lbfgsb.types import NDArrayFloat


def ackley(x: NDArrayFloat) -> float:
    """
    The Ackley function.

    Parameters
    ----------
    x : array_like
        1-D array of points at which the Ackley function is to be computed.

    Returns
    -------
    float
        The value of the Ackley function.

    """
    x = np.asarray(x)
    ndim = x.size
    e = 2.7182818284590451
    sum1 = np.sqrt(1.0 / ndim * np.square(x).sum())
    sum2 = 1.0 / ndim * np.cos(2.0 * np.pi * x).sum()
    return 20.0 + e - 20.0 * np.exp(-0.2 * sum1) - np.exp(sum2)


def ackley_grad(x: NDArrayFloat) -> NDArrayFloat:
    """
    The gradient of the Ackley function.

    Parameters
    ----------
    x : array_like
        1-D array of points at which the Ackley function is to be derivated.

    Returns
    -------
    NDArrayFloat
        The gradient of the Ackley function.

    """
    x = np.asarray(x)
    ndim = x.size
    square_sum = np.square(x).sum()
    return (
        4.0
        * x
        * np.sqrt(square_sum / ndim)
        * np.exp(-0.2 * np.sqrt(square_sum / ndim))
        / square_sum
    ) + 2.0 * np.pi / ndim * np.sin(2.0 * np.pi * x) * np.exp(
        np.cos(2.0 * np.pi * x).sum() / ndim
    )


def beale(x: NDArrayFloat) -> float:
    """
    The Beale function.

    Parameters
    ----------
    x : array_like
        1-D array of points at which the Beale function is to be computed.

    Returns
    -------
    float
        The value of the Griewank function.

    """
    x = np.asarray(x)
    return (
        (1.5 - x[:-1] + x[:-1] * x[1:]) ** 2
        + (2.25 - x[:-1] + x[:-1] * x[1:] ** 2) ** 2
        + (2.625 - x[:-1] + x[:-1] * x[1:] ** 3) ** 2
    ).sum()


def beale_grad(x: NDArrayFloat) -> NDArrayFloat:
    """
    The gradient of the Quartic function.

    Parameters
    ----------
    x : array_like
        1-D array of points at which the Beale function is to be derivated.

    Returns
    -------
    NDArrayFloat
        The gradient of the Beale function.

    """
    x = np.asarray(x)
    y1 = x[1:]
    y2 = y1 * y1
    y3 = y2 * y1
    f1 = 1.5 - x[:-1] + x[:-1] * y1
    f2 = 2.25 - x[:-1] + x[:-1] * y2
    f3 = 2.625 - x[:-1] + x[:-1] * y3
    grad = np.zeros_like(x, dtype=np.result_type(x, float))
    grad[:-1] += 2 * (y1 - 1) * f1 + 2 * (y2 - 1) * f2 + 2 * (y3 - 1) * f3
    grad[1:] += 2 * x[:-1] * f1 + 4 * x[:-1] * y1 * f2 + 6 * x[:-1] * y2 * f3
    return grad


def griewank(x: NDArrayFloat) -> float:
    """
    The Griewank function.

    Parameters
    ----------
    x : array_like
        1-D array of points at which the Griewank function is to be computed.

    Returns
    -------
    float
        The value of the Griewank function.

    """
    x = np.asarray(x)
    ndim = x.size
    sum1 = np.square(x).sum() / 4000.0
    prod1 = np.prod(np.cos(x / np.sqrt(np.arange(1, ndim + 1))))
    return 1.0 + sum1 - prod1


def griewank_grad(x: NDArrayFloat) -> NDArrayFloat:
    """
    The gradient of the Griewank function.

    Parameters
    ----------
    x : array_like
        1-D array of points at which the Griewank function is to be derivated.

    Returns
    -------
    NDArrayFloat
        The gradient of the Griewank function.

    """
    x = np.asarray(x)
    ndim = x.size
    den = np.sqrt(np.arange(1, ndim + 1))
    return (
        x / 2000.0 + np.sin(x / den) * np.prod(np.cos(x / den)) / np.cos(x / den) / den
    )


def quartic(x: NDArrayFloat) -> float:
    """
    The Quartic function.

    Parameters
    ----------
    x : array_like
        1-D array of points at which the Quartic function is to be computed.

    Returns
    -------
    float
        The value of the Quartic function.

    """
    x = np.asarray(x)
    ndim = x.size
    return (np.arange(1, ndim + 1) * np.power(x, 4)).sum()


def quartic_grad(x: NDArrayFloat) -> NDArrayFloat:
    """
    The gradient of the Quartic function.

    Parameters
    ----------
    x : array_like
        1-D array of points at which the Quartic function is to be derivated.

    Returns
    -------
    NDArrayFloat
        The gradient of the Quartic function.

    """
    x = np.asarray(x)
    ndim = x.size
    return np.arange(1, ndim + 1) * 4 * np.power(x, 3)


def rastrigin(x: NDArrayFloat) -> float:
    """
    The Rastrigin function.

    Parameters
    ----------
    x : array_like
        1-D array of points at which the Rastrigin function is to be computed.

    Returns
    -------
    float
        The value of the Rastrigin function.

    """
    x = np.asarray(x)
    ndim = x.size
    sum1 = (np.square(x) - 10.0 * np.cos(2.0 * np.pi * x)).sum()
    return 10.0 * ndim + sum1


def rastrigin_grad(x: NDArrayFloat) -> NDArrayFloat:
    """
    The gradient of the Rastrigin function.

    Parameters
    ----------
    x : array_like
        1-D array of points at which the Rastrigin function is to be derivated.

    Returns
    -------
    NDArrayFloat
        The gradient of the Rastrigin function.

    """
    x = np.asarray(x)
    return 2.0 * x + 20.0 * np.pi * np.sin(2.0 * np.pi * x)


def rosenbrock(x: NDArrayFloat) -> float:
    """
    The Rosenbrock function.

    Parameters
    ----------
    x : array_like
        1-D array of points at which the Rosenbrock function is to be computed.

    Returns
    -------
    float
        The value of the Rosenbrock function.

    """
    x = np.asarray(x)
    sum1 = ((x[1:] - x[:-1] ** 2.0) ** 2.0).sum()
    sum2 = np.square(1.0 - x[:-1]).sum()
    return 100.0 * sum1 + sum2


def rosenbrock_grad(x: NDArrayFloat) -> NDArrayFloat:
    """
    The gradient of the Rosenbrock function.

    Parameters
    ----------
    x : array_like
        1-D array of points at which the Rosenbrock function is to be derivated.

    Returns
    -------
    NDArrayFloat
        The gradient of the Rosenbrock function.
    """
    x = np.asarray(x)
    g = np.zeros(x.size)
    # derivation of sum1
    g[1:] += 100.0 * (2.0 * x[1:] - 2.0 * x[:-1] ** 2.0)
    g[:-1] += 100.0 * (-4.0 * x[1:] * x[:-1] + 4.0 * x[:-1] ** 3.0)
    # derivation of sum2
    g[:-1] += 2.0 * (x[:-1] - 1.0)
    return g


def sphere(x: NDArrayFloat) -> float:
    """
    The Sphere function.

    Parameters
    ----------
    x : array_like
        1-D array of points at which the Sphere function is to be computed.

    Returns
    -------
    float
        The value of the Sphere function.

    """
    return np.square(x).sum()


def sphere_grad(x: NDArrayFloat) -> NDArrayFloat:
    """
    The gradient of the Sphere function.

    Parameters
    ----------
    x : array_like
        1-D array of points at which the Sphere function is to be derivated.

    Returns
    -------
    NDArrayFloat
        The gradient of the Rosenbrock function.
    """
    return 2 * np.asarray(x)


def styblinski_tang(x: NDArrayFloat) -> float:
    """
    The Styblinski-Tang function.

    Parameters
    ----------
    x : array_like
        1-D array of points at which the Styblinski-Tang function is to be computed.

    Returns
    -------
    float
        The value of the Styblinski-Tang function.

    """
    x = np.asarray(x)
    sum1 = (np.power(x, 4) - 16.0 * np.square(x) + 5.0 * x).sum()
    return 0.5 * sum1 + 39.16599 * x.size


def styblinski_tang_grad(x: NDArrayFloat) -> NDArrayFloat:
    """
    The gradient of the Styblinski-Tang function.

    Parameters
    ----------
    x : array_like
        1-D array of points at which the Styblinski-Tang function is to be derivated.

    Returns
    -------
    NDArrayFloat
        The gradient of the Styblinski-Tang function.

    """
    x = np.asarray(x)
    return 2.0 * np.power(x, 3) - 16.0 * x + 2.5
