"""Provide optimization utilities."""

import numpy as np
from scipy.optimize import LbfgsInvHessProduct

from lbfgsb.types import NDArrayFloat


def extract_hess_inv_diag(hess_inv: LbfgsInvHessProduct) -> NDArrayFloat:
    """
    Extract efficiently the diagonal of the L-BFGS approximate inverse Hessian.

    It relies on the linear operator `matvec` operation and consequenlty does not
    require to build the dense matrix which is much longer and generally untractable
    for large-scale problems.

    Parameters
    ----------
    hess_inv : LbfgsInvHessProduct
        Linear operator for the L-BFGS approximate inverse Hessian.

    Returns
    -------
    NDArrayFloat
        The diagonal of the L-BFGS approximated inverse Hessian.
    """
    n_params = hess_inv.shape[0]
    hess_inv_diag = np.zeros(n_params)
    for i in range(n_params):
        v = np.zeros(n_params)
        v[i] = 1.0
        hess_inv_diag[i] = hess_inv.matvec(v)[i]
    return hess_inv_diag


def get_gradient_projection_unit_scaling(
    x: NDArrayFloat,
    grad: NDArrayFloat,
    lbounds: NDArrayFloat,
    ubounds: NDArrayFloat,
) -> float:
    """_summary_

    Parameters
    ----------
    x : NDArrayFloat
        Parameter vector.
    grad : NDArrayFloat
        Gradient of the parameter vector.
    lbounds : NDArrayFloat
        Lower bounds.
    ubounds : NDArrayFloat
        Upper bounds.

    Returns
    -------
    float
        The scaling factor.
    """
    # perform a bounded update
    updated_params = x - np.clip(x - grad, a_min=lbounds, a_max=ubounds)
    max_change = max(abs(updated_params))
    return 1.0 / max_change
