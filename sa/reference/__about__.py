"""Get the metadata."""

__version__ = "0.1.1"
__author__ = "Antoine Collet"
__email__ = "antoine.collet5@gmail.com"
