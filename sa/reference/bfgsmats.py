"""
An *implicit* representation of the BFGS approximation to the Hessian matrix B

B = theta * I - W * M * W'
H = inv(B)

Classes
^^^^^^^

.. autosummary::
   :toctree: _autosummary

    LBFGSB_MATRICES

Functions
^^^^^^^^^

.. autosummary::
   :toctree: _autosummary

    bmv
    form_invMfactors
    update_lbfgs_matrices
    update_X_and_G

Reference:
:cite:`nocedalUpdatingQuasiNewtonMatrices1980`
:cite:`byrdRepresentationsQuasiNewtonMatrices1994`
:cite:`byrdLimitedMemoryAlgorithm1995`
"""

import logging
from typing import Deque, Optional, Tuple

import numpy as np
import scipy as sp

from lbfgsb.types import NDArrayFloat


class LBFGSB_MATRICES:
    """
    Represent the L-BFGS matrices.

    Attributes
    ----------
    S : NDArrayFloat
        # shape (n, m)
    Y : NDArrayFloat
        # shape (n, m)
    D : NDArrayFloat
        # shape (m, m)
    L : NDArrayFloat
        # shape (m, m)
    W : NDArrayFloat
        # shape (m, 2m)
    invMfactors: Tuple[NDArrayFloat, NDArrayFloat]
        # shape (2m, 2m)
    theta : float
        L-BFGS float parameter (multiply the identity matrix).
    TODO.
    """

    __slots__ = ["S", "Y", "D", "L", "W", "invMfactors", "theta"]

    def __init__(self, n: int) -> None:
        """
        Initialize the instance.

        Parameters
        ----------
        n : int
            Number of adjusted variables.
        """
        if n < 1:
            raise ValueError("n must be an integer > 0.")
        self.S: NDArrayFloat = np.zeros([n, 1])
        self.Y: NDArrayFloat = np.zeros([n, 1])
        self.D: NDArrayFloat = np.zeros([n, 1])
        self.L: NDArrayFloat = np.zeros([n, 1])
        self.W: NDArrayFloat = np.zeros([n, 1])
        self.invMfactors: Tuple[NDArrayFloat, NDArrayFloat] = (
            np.zeros([1, 1]),
            np.zeros([1, 1]),
        )
        self.theta: float = 1.0

    @property
    def use_factor(self) -> bool:
        """If the factors are null then matrix factorization will fail."""
        return self.invMfactors[0].size != 1 or self.invMfactors[0][0, 0] != 0


def bmv(
    invMfactors: Tuple[NDArrayFloat, NDArrayFloat], v: NDArrayFloat
) -> NDArrayFloat:
    """
    Return the product of the 2m x 2m middle matrix with a vector v.

    In the compact L-BFGS formula of B and a 2m vector `v`;
    it returns the product in `p`.

    Parameters
    ----------
    invMfactors : Tuple[NDArrayFloat, NDArrayFloat]
        _description_
    v : NDArrayFloat
        _description_

    Returns
    -------
    NDArrayFloat
        _description_
    """
    # PART I: solve [  D^(1/2)      O ] [ p1 ] = [ v1 ]
    #               [ -L*D^(-1/2)   J ] [ p2 ]   [ v2 ].
    # sp.linalg.solve_triangular(invMfactors[0], v, lower=True)
    # PART II: solve [ -D^(1/2)   D^(-1/2)*L'  ] [ p1 ] = [ p1 ]
    #                [  0         J'           ] [ p2 ]   [ p2 ].
    return sp.linalg.solve_triangular(
        invMfactors[1],
        sp.linalg.solve_triangular(invMfactors[0], v, lower=True),
        lower=False,
    )


def form_invMfactors(theta, STS, L, D) -> Tuple[NDArrayFloat, NDArrayFloat]:
    r"""
    Return upper triangle of the cholesky factorization of the inverse of M_k.

    This is defined in eq. (3.4) [1].

    Although Mk is not positive definite, but its inverse reads

    .. math::

        \mathbf{M}^{-1} = \begin{bmatrix} -\mathbf{D} & \mathbf{L}^{\mathrm{T}} \\
        \mathbf{L} & \theta \mathbf{S}^{\mathrm{T}}\mathbf{S} \end{bmatrix}


    as given in (3.4) of [1].

    Hence its inverse can be factorized almost `symmetrically` by using Cholesky
    factorizations of the submatrices.
    Now, the inverse of Mk, the middle matrix in B reads:

    [  D^(1/2)      O ] [ -D^(1/2)  D^(-1/2)*L' ]
    [ -L*D^(-1/2)   J ] [  0        J'          ]

    With J @ J' = T = theta*Ss + L*D^(-1)*L'; T being definite positive,
    J is obtained by Cholesky factorization of T.

    REF: see algo 3.2 in :cite:t:`byrdRepresentationsQuasiNewtonMatrices1994`.
    """
    invD = np.zeros_like(D)
    # Add 1/D on diagonal
    invD.flat[:: D.shape[0] + 1] = 1 / np.diag(D)

    # Cholesky factorization
    J = sp.linalg.cholesky(theta * STS + L @ invD @ L.T, lower=True)

    # Note we form the upper triangle and then transpose it to get the lower one
    return (
        np.hstack(
            [
                np.vstack([np.sqrt(D), -(np.sqrt(invD) @ L.T).T]),  # upper row
                np.vstack([np.zeros(D.shape), J]),  # lower row
            ]
        ),
        np.hstack(
            [
                np.vstack([-np.sqrt(D), np.zeros(D.shape)]),  # upper row
                np.vstack([np.sqrt(invD) @ L.T, J.T]),  # lower row
            ]
        ),
    )


def update_lbfgs_matrices(
    xk: NDArrayFloat,
    gk: NDArrayFloat,
    X: Deque[NDArrayFloat],
    G: Deque[NDArrayFloat],
    maxcor: int,
    mats: LBFGSB_MATRICES,
    is_force_update: bool,
    eps: float = 2.2e-16,
    is_check_factorization: bool = False,
) -> LBFGSB_MATRICES:
    r"""
    Update lists S and Y, and form the L-BFGS Hessian approximation thet, W and M.

    Instead of storing sk and yk, we store the gradients and the parameters.

    2 conditions for update
    - The current step update is accepted
    - The all sequence of x and g has been modified (reg case)

    Parameters
    ----------
    xk : NDArrayFloat
        New x parameter.
    gk : NDArrayFloat
        New gradient parameter g.
    X : deque
        List of successive parameters x.
    G : deque
        List of successive gradients.
    maxcor : int
        The maximum number of variable metric corrections used to
        define the limited memory matrix. (The limited memory BFGS
        method does not store the full hessian but uses this many terms
        in an approximation to it.)
    is_force_update: bool
        Whether to perform an update even if the current step update is rejected.
        This is useful if the sequence of X and G has been modified during the
        optimization. See TODO: add ref, for the use.
    eps : float, optional
        Positive stability parameter for accepting current step for updating.
        By default 2.2e-16.
    is_check_factorization: bool
        Whether to check the cholesky actorization of M. The default is False.

    Returns
    -------
    Tuple[NDArrayFloat, Tuple[NDArrayFloat, NDArrayFloat], float]
        Updated [W, M, invMfactors, theta]

    References
    ----------
    * R. H. Byrd, P. Lu and J. Nocedal. A Limited Memory Algorithm for Bound
      Constrained Optimization, (1995), SIAM Journal on Scientific and
      Statistical Computing, 16, 5, pp. 1190-1208.
    * C. Zhu, R. H. Byrd and J. Nocedal. L-BFGS-B: Algorithm 778: L-BFGS-B,
      FORTRAN routines for large scale bound constrained optimization (1997),
      ACM Transactions on Mathematical Software, 23, 4, pp. 550 - 560.
    * J.L. Morales and J. Nocedal. L-BFGS-B: Remark on Algorithm 778: L-BFGS-B,
      FORTRAN routines for large scale bound constrained optimization (2011),
      ACM Transactions on Mathematical Software, 38, 1.
    """
    # Case of a vector
    is_current_update_accepted: bool = update_X_and_G(xk, gk, X, G, maxcor, eps)

    # two conditions to update the inverse Hessian approximation
    if is_force_update or is_current_update_accepted:
        # yk and sk: These correction pairs contain information about the curvature of
        # the
        # function and, in conjunction with the BFGS formula, define the limited-memory
        # iteration matrix Bk. The question is how to best represent these matrices
        # without explicitly forming them. In [6] it is proposed to use a compact
        # (or outer product) form to define the limited-memory matrix Bk in terms of
        # the n x m correction matrices

        # 1) Update theta
        yk = G[-1] - G[-2]
        # sk = X[-1] - X[-2]
        sTy = (X[-1] - X[-2]).dot(yk)  # type: ignore
        yTy = (yk).dot(yk)  # type: ignore
        mats.theta = yTy / sTy

        # Update the lbfgsb matrices
        mats.S = np.diff(np.array(X), axis=0).T  # shape (n, m)
        mats.Y = np.diff(np.array(G), axis=0).T  # shape (n ,m)
        STS = mats.S.T @ mats.S  # shape (m, m)
        mats.L = mats.S.T @ mats.Y
        # We can build a dense matrix because shape is (m, m) with m usually small ~10
        mats.D = np.diag(np.diag(mats.L))  # shape (m, m)
        mats.L = np.tril(mats.L, -1)  # shape (m, m)

        # W = [Yk, \theta Sk]
        mats.W = np.hstack([mats.Y, mats.theta * mats.S])  # shape (n, 2m)

        # To avoid forming the limited-memory iteration matrix Bk and allow fast
        # matrix vector products, we represent it as eq. (3.2) [1].
        # B = theta * I  - W @ M @ W.T

        # M (or Mk) can be obtained with
        # M = np.linalg.inv(
        #     np.hstack([np.vstack([-D, L]), np.vstack([L.T, theta * STS])])
        # )
        # However, we can also factorize its inverse and obtain very fast matrix
        # products: lower triangle of M inverse
        mats.invMfactors = form_invMfactors(mats.theta, STS, mats.L, mats.D)

        # Test the factorization on the fly.
        if is_check_factorization:
            np.testing.assert_allclose(
                mats.invMfactors[0] @ mats.invMfactors[1],
                np.hstack(
                    [
                        np.vstack([-mats.D, mats.L]),
                        np.vstack([mats.L.T, mats.theta * STS]),
                    ]
                ),
            )

    return mats


def update_X_and_G(
    xk: NDArrayFloat,
    gk: NDArrayFloat,
    X: Deque[NDArrayFloat],
    G: Deque[NDArrayFloat],
    maxcor: int,
    eps: float = 2.2e-16,
) -> bool:
    """

    Parameters
    ----------
    xk : NDArrayFloat
        New adjusted values vector.
    gk : NDArrayFloat
        New gradient vector.
    X : Deque[NDArrayFloat]
        Sequence of past adjusted values vectors respecting the strong wolfe conditions.
    G : Deque[NDArrayFloat]
        Sequence of past gradient vectors respecting the strong wolfe conditions.
    maxcor : int
        Maximum number of corrections stored (m).
    eps : float, optional
        _description_, by default 2.2e-16

    Returns
    -------
    bool
        _description_
    """
    if not is_update_X_and_G(xk, gk, X[-1], G[-1], eps):
        return False

    X.append(xk)
    G.append(gk)
    # maxcor is the number of corrections m (see S and Y shapes),
    # so we must keep one more gradient and parameter vectors.
    if len(X) > maxcor + 1:
        X.popleft()
        G.popleft()

    return True


def is_update_X_and_G(
    xk: NDArrayFloat,
    gk: NDArrayFloat,
    x_old: NDArrayFloat,
    g_old: NDArrayFloat,
    eps: float = 2.2e-16,
) -> bool:
    """
    Update the sequence of parameters X and gradients G with a strong wolfe condition.

    Parameters
    ----------
    xk : NDArrayFloat
        New adjusted values vector (at iteration k).
    gk : NDArrayFloat
        New gradient vector (at iteration k).
    x_old : NDArrayFloat
        Previous adjusted values vector (at iteration k-1).
    g_old : NDArrayFloat
        Previous gradient vector (at iteration k-1).
    maxcor : int
        Maximum number of corrections stored (m).
    eps : float, optional
        _description_, by default 2.2e-16

    Returns
    -------
    bool
        Whether the current step as been accepted.
    """
    yk = gk - g_old
    sTy = (xk - x_old).dot(yk)  # type: ignore
    yTy = (yk).dot(yk)  # type: ignore

    # See eq. (3.9) in [1].
    # One can show that BFGS update (2.19) generates positive definite approximations
    # whenever the initial approximation B0 is positive definite and sT k yk > 0.
    # We discuss these issues further in Chapter 6. (See Numerical optimization in
    # Noecedal and Wright)
    if sTy > eps * yTy:
        return True
    return False


def make_X_and_G_respect_strong_wolfe(
    X: Deque[NDArrayFloat],
    G: Deque[NDArrayFloat],
    eps: float = 2.2e-16,
    logger: Optional[logging.Logger] = None,
) -> Tuple[Deque[NDArrayFloat], Deque[NDArrayFloat]]:
    """

    Parameters
    ----------
    X : Deque[NDArrayFloat]
        Sequence of past adjusted values vectors respecting the strong wolfe conditions.
    G : Deque[NDArrayFloat]
        Sequence of past gradient vectors respecting the strong wolfe conditions.
    eps : float, optional
        _description_, by default 2.2e-16
    logger: Optional[Logger], optional
        :class:`logging.Logger` instance. If None, nothing is displayed, no matter the
        value of `iprint`, by default None.

    Returns
    -------
    Tuple[Deque[NDArrayFloat], Deque[NDArrayFloat]]
        _description_
    """

    ncor: int = len(X) - 1
    _X, _G = Deque([X[-1]]), Deque([G[-1]])
    for i in range(ncor):
        k = ncor - i - 1  # start at 1
        if not is_update_X_and_G(X[k], G[k], _X[0], _G[0], eps):
            if logger is not None:
                logger.info(f"Dropping update #{- i - 2}")
        else:
            _X.appendleft(X[k])
            _G.appendleft(G[k])

    # This is for debug
    if len(_G) != len(G) and logger is not None:
        # if logger is not None:
        logger.info(f"len(newG) = {len(_G)}, len(oldG) = {len(G)}")
    return _X, _G
