"""Provide types."""

import numpy as np
import numpy.typing as npt

NDArrayFloat = npt.NDArray[np.float64]
NDArrayInt = npt.NDArray[np.int64]
