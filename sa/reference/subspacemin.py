"""
Subspace minimization procedure of the L-BFGS-B algorithm,
mainly for internal use.

The target of subspace minimization is to minimize the quadratic function m(x)
over the free variables, subject to the bound condition.
Free variables stand for coordinates that are not at the boundary in xcp,
the generalized Cauchy point.

In the classical implementation of L-BFGS-B [1], the minimization is done by first
ignoring the box constraints, followed by a line search.

TODO: Our implementation is
an exact minimization subject to the bounds, based on the BOXCQP algorithm [2].

Functions
^^^^^^^^^

.. autosummary::
   :toctree: _autosummary

    get_freev
    form_k_from_wm
    form_k_from_za
    factorize_k
    subspace_minimization

Reference:
[1] R. H. Byrd, P. Lu, and J. Nocedal (1995). A limited memory algorithm for bound
constrained optimization.
[2] C. Voglis and I. E. Lagaris (2004). BOXCQP: An algorithm for bound constrained
convex quadratic problems.
"""

import logging
from typing import Optional, Tuple

import numpy as np
import scipy as sp
from scipy.sparse import lil_matrix, spmatrix

from lbfgsb.bfgsmats import LBFGSB_MATRICES, bmv
from lbfgsb.types import NDArrayFloat, NDArrayInt


def get_freev(
    x_cp: NDArrayFloat,
    lb: NDArrayFloat,
    ub: NDArrayFloat,
    iter: int,
    free_vars_old: Optional[NDArrayInt] = None,
    iprint: int = -1,
    logger: Optional[logging.Logger] = None,
) -> Tuple[NDArrayInt, spmatrix, spmatrix]:
    """
    Get the free variables and build sparse Z and A matrices.

    Parameters
    ----------
    x_cp : NDArrayFloat
        Generalized cauchy point.
    lb : NDArrayFloat
        Lower bounds.
    ub : NDArrayFloat
        Upper bounds.
    free_vars_old : NDArrayInt
        Free variables at x_cp at the previous iteration.
    iter : int
        Iteration number.
    iprint : int, optional
        Controls the frequency of output. ``iprint < 0`` means no output;
        ``iprint = 0``    print only one line at the last iteration;
        ``0 < iprint < 99`` print also f and ``|proj g|`` every iprint iterations;
        ``iprint >= 99``   print details of every iteration except n-vectors;
    logger: Optional[Logger], optional
        :class:`logging.Logger` instance. If None, nothing is displayed, no matter the
        value of `iprint`, by default None.

    Returns
    -------
    Tuple[NDArrayInt, spmatrix, spmatrix]
        The free variables and sparse matrices Z and A.
    """
    # number of variables
    n: int = x_cp.size

    # Array of free variable and active variable indices (from 0 to n-1)
    free_vars: NDArrayInt = ((x_cp != ub) & (x_cp != lb)).nonzero()[0]
    active_vars: NDArrayInt = (
        ~np.isin(np.arange(n), free_vars)  # type: ignore
    ).nonzero()[0]

    nb_free_vars: int = free_vars.size
    nb_active_vars: int = active_vars.size

    # See section 5 of [1]: We define Z to be the (n , t) matrix whose columns are
    # unit vectors (i.e., columns of the identity matrix) that span the subspace of the
    # free variables at zc.Similarly A denotes the (n, (n- t)) matrix of active
    # constraint gradients at zc,which consists of n - t unit vectors.
    # Note that A^{T}Z = 0 and that  AA^T + ZZ^T == I.

    # We use sparse formats to save memory and get faster matrix products
    Z = lil_matrix((n, nb_free_vars))
    A = lil_matrix((n, nb_active_vars))
    # Affect one
    Z[free_vars, np.arange(nb_free_vars)] = 1
    A[active_vars, np.arange(nb_active_vars)] = 1

    # Test: we should have Z @ Z.T + A @ A.T == I

    # Some display
    # 1) Indicate which variable is leaving the free variables and which is
    # entering the free variables -> Not for the first iteration
    if iprint > 100 and iter > 0 and free_vars_old is not None and logger is not None:
        # Variables leaving the free variables
        leaving_vars = active_vars[np.isin(active_vars, free_vars_old)]
        logger.info(f"Variables leaving the free variables set = {leaving_vars}")
        entering_vars = free_vars[~np.isin(free_vars, free_vars_old)]

        logger.info(f"Variables entering the free variables set = {entering_vars}")
        logger.info(
            f"N variables leaving = {leaving_vars.size} \t,"
            f" N variables entering = {entering_vars.size}"
        )
    # 2) Display the total of free variables at x_cp
    if iprint > 99 and logger is not None:
        logger.info(f"{free_vars.size} variables are free at GCP, iter = {iter + 1}")

    return free_vars, Z.tocsc(), A.tocsc()


def form_k(
    Z: spmatrix,
    A: spmatrix,
    WTZ: NDArrayFloat,
    mats: LBFGSB_MATRICES,
    is_assert_correct: bool = True,
) -> NDArrayFloat:
    """ """
    # Construct K = M^{-1}(I - 1/theta M WT Z @ ZT @ W))
    K = form_k_from_za(Z, A, mats)
    if is_assert_correct:
        K_wm = form_k_from_wm(WTZ, mats.invMfactors, mats.theta)
        np.testing.assert_allclose(K, K_wm, atol=1e-8)
    return K


def form_k_from_za(
    Z: spmatrix,
    A: spmatrix,
    mats: LBFGSB_MATRICES,
    logger: Optional[logging.Logger] = None,
) -> NDArrayFloat:
    r"""
    Form the matrix K.

    The matrix K is defined by

    .. math::
        \mathbf{M}^{-1} \mathbf{K} = \left(\mathbf{I} - \dfrac{1}{\theta}
            \mathbf{MW}^{\mathrm{T}}
            \mathbf{ZZ}^{\mathrm{T}}\mathbf{W}\right)  =
            \begin{bmatrix} -\mathbf{D} - \dfrac{1}{\theta} \mathbf{Y}^{\mathrm{T}}
            \mathbf{ZZ}^{\mathrm{T}}\mathbf{Y} & \mathbf{L}_A^{\mathrm{T}}
            - \mathbf{R}_Z^{\mathrm{T}} \\ \mathbf{L}_A - \mathbf{R}_Z & \theta
            \mathbf{S}^{\mathrm{T}}\mathbf{AA}^{\mathrm{T}}\mathbf{S} \end{bmatrix}

    Parameters
    ----------
    """
    if Z.shape[0] == 0:
        YTZZTY = np.zeros((mats.Y.shape[1], mats.Y.shape[1]))
        STZZTY = np.zeros((mats.Y.shape[1], mats.Y.shape[1]))
    else:
        YTZZTY = mats.Y.T @ Z @ Z.T @ mats.Y
        STZZTY = mats.S.T @ Z @ Z.T @ mats.Y
    if A.shape[0] == 0:
        STAATS = np.zeros((mats.S.shape[1], mats.S.shape[1]))
    else:
        STAATS = mats.S.T @ A @ A.T @ mats.S

    m = mats.L.shape[0]
    K = np.zeros((m * 2, m * 2))

    K[:m, :m] = -mats.D - (1 / mats.theta) * YTZZTY
    K[:m, m:] = (mats.L - STZZTY).T
    K[m:, :m] = mats.L - STZZTY
    K[m:, m:] = mats.theta * STAATS

    return K


def form_k_from_wm(
    WTZ: NDArrayFloat,
    invMfactors: Tuple[NDArrayFloat, NDArrayFloat],
    theta: float,
) -> NDArrayFloat:
    r"""
    Form the matrix K.

    The matrix K is defined as

    .. math::

        mathbf{K} = \mathbf{M}^{-1} \left(\mathbf{I} -
        \dfrac{1}{\theta} \mathbf{MW}^{\mathrm{T}}
        \mathbf{ZZ}^{\mathrm{T}}\mathbf{W}\right)

    Parameters
    ----------
    WTZ : NDArrayFloat
        _description_
    invMfactors : Tuple[NDArrayFloat, NDArrayFloat]
        _description_
    theta : float
        _description_

    Returns
    -------
    NDArrayFloat
        _description_
    """
    # Instead we build K directly as M^{-1}(I - 1/theta M WT Z @ ZT @ W))
    K = invMfactors[0] @ invMfactors[1]
    N = -1 / theta * bmv(invMfactors, WTZ.dot(np.transpose(WTZ)))
    np.fill_diagonal(N, N.diagonal() + 1)
    return K @ N


def factorize_k(
    K: NDArrayFloat,
    is_assert_correct: bool = True,
) -> Optional[NDArrayFloat]:
    """
    Return the L with LEL^T factorization of the indefinite matrix K.

    K = [-D -Y'ZZ'Y/theta     L_a'-R_z'  ]
        [L_a -R_z           theta*S'AA'S ]

    where

    E = [-I  0]
        [ 0  I]

    Parameters
    ----------
    X : Deque[NDArrayFloat]
        _description_
    G : Deque[NDArrayFloat]
        _description_
    Z : spmatrix
        _description_
    A : spmatrix
        _description_
    WTZ : NDArrayFloat
        _description_
    invMfactors : Tuple[NDArrayFloat, NDArrayFloat]
        _description_
    theta : float
        _description_
    is_assert_correct : bool, optional
        _description_, by default True

    Returns
    -------
    Optional[NDArrayFloat]
        _description_
    """
    # The factorization only makes sense if K is at least (2, 2).
    if K.size < 4:
        assert K.size == 1
        return np.sqrt(K)

    # Extract the subblocks of K with K12 = K21.T (K is symmetric)
    m = int(K.shape[0] / 2)
    K11 = -K[:m, :m]
    K12 = -K[:m, m:]
    K22 = K[m:, m:]

    # Form L, the lower part of LL' = D+Y' ZZ'Y/theta
    L11 = sp.linalg.cholesky(K11, lower=True, overwrite_a=False)

    # then form L^-1(-L_a'+R_z') in the (1,2) block.
    L12 = sp.linalg.solve_triangular(L11, K12, lower=True, trans="N")

    # Form L22 from S'AA'S*theta + (L^-1(-L_a'+R_z'))'L^-1(-L_a'+R_z')
    L22 = sp.linalg.cholesky(K22 + L12.T @ L12, lower=True)

    # LK is a lower triangle of the matrix factorization LK @ E @ LK.T
    LK = np.hstack([np.vstack([L11, L12.T]), np.vstack([np.zeros(L12.shape), L22])])

    # Test the factorization
    if is_assert_correct:
        E = np.identity(n=2 * m)
        E[:m, :m] *= -1
        np.testing.assert_allclose(LK @ E @ LK.T, K, atol=1e-8)
    return LK


def subspace_minimization(
    x: NDArrayFloat,
    xc: NDArrayFloat,
    free_vars: NDArrayInt,
    Z: spmatrix,
    A: spmatrix,
    c: NDArrayFloat,
    grad: NDArrayFloat,
    lb: NDArrayFloat,
    ub: NDArrayFloat,
    mats: LBFGSB_MATRICES,
    is_check_factorizations: bool = False,
) -> NDArrayFloat:
    r"""
    Computes an approximate solution of the subspace problem.

    This is following section 5.1 in Byrd et al. (1995).

    .. math::

        \begin{aligned}
            \min& &\langle r, (x-xcp)\rangle + 1/2 \langle x-xcp, B (x-xcp)\rangle\\
            \text{s.t.}& &l<=x<=u\\
                       & & x_i=xcp_i \text{for all} i \in A(xcp)
        \end{aligned}

    along the subspace unconstrained Newton direction :math:`d = -(Z'BZ)^(-1) r`.

    Parameters
    ----------
    x : NDArrayFloat
        Starting point for the GCP computation
    xc : NDArrayFloat
        Cauchy point.
    c : NDArrayFloat
        W^T(xc-x), computed with the Cauchy point.
    grad : NDArrayFloat
        Gradient of f(x). grad must be a nonzero vector.
    lb : NDArrayFloat
        Lower bound vector.
    ub : NDArrayFloat
        Upper bound vector.
    mats: LBFGSB_MATRICES
        TODO.
    Z: spmatrix
        Warning: it has shape (n, t)

    Returns
    -------
    NDArrayFloat
        xbar

    References
    ----------
    * R. H. Byrd, P. Lu and J. Nocedal. A Limited Memory Algorithm for Bound
      Constrained Optimization, (1995), SIAM Journal on Scientific and
      Statistical Computing, 16, 5, pp. 1190-1208.
    * C. Zhu, R. H. Byrd and J. Nocedal. L-BFGS-B: Algorithm 778: L-BFGS-B,
      FORTRAN routines for large scale bound constrained optimization (1997),
      ACM Transactions on Mathematical Software, 23, 4, pp. 550 - 560.
    * J.L. Morales and J. Nocedal. L-BFGS-B: Remark on Algorithm 778: L-BFGS-B,
      FORTRAN routines for large scale bound constrained optimization (2011),
      ACM Transactions on Mathematical Software, 38, 1.
    """
    # Direct primal method

    invThet = 1.0 / mats.theta

    # d = (1/theta)r + (1/theta*2) Z'WK^(-1)W'Z r.

    if len(free_vars) == 0:
        return xc

    # Same as W.T.dot(Z) but numpy does not handle correctly
    # numpy_array.dot(sparce_matrix), so we give the responsibility to the
    # sparse matrix
    # Note that here, Z is suppose to have a shape (t, n) with t the number
    # of free_vars and n the number of variables.
    # WTZ = W.T.dot(Z.todense()) works but this is much less efficient
    WTZ = Z.T.dot(mats.W).T

    r = grad + mats.theta * (xc - x)
    # At iter 0, M is [[0.0]] and so is invMfactors
    if mats.use_factor:
        r -= mats.W.dot(bmv(mats.invMfactors, c))

    rHat = [r[ind] for ind in free_vars]
    v = WTZ.dot(rHat)

    # Factorization of M^{-1}(I - 1/theta M WT Z @ ZT @ W))
    if mats.use_factor:
        K = form_k(Z, A, WTZ, mats, is_assert_correct=is_check_factorizations)
        # The assertion includes minor overhead
        LK: Optional[NDArrayFloat] = factorize_k(
            K, is_assert_correct=is_check_factorizations
        )
    else:
        LK = None

    if LK is not None:
        # LK is the lowest triangle of the cholesky factorization
        # of (I - 1/theta M WT Z @ ZT @ W)^{-1} M.
        v = sp.linalg.solve_triangular(LK, v, lower=True)
        v[: int(LK.shape[0] / 2)] *= -1
        v = sp.linalg.solve_triangular(LK.T, v, lower=False)
    else:
        # This is less efficient but it should only happen if LK is None, i.e., at
        # iteration 0
        if mats.use_factor:
            v = bmv(mats.invMfactors, v)
            N = -bmv(mats.invMfactors, invThet * WTZ.dot(np.transpose(WTZ)))
        else:
            M = mats.invMfactors[0] @ mats.invMfactors[1]
            v = M.dot(v)
            N = -M.dot(invThet * WTZ.dot(np.transpose(WTZ)))
        # Add the identity matrix: this is the same as N = np.eye(N.shape[0]) - M.dot(N)
        # but much faster
        np.fill_diagonal(N, N.diagonal() + 1)
        v = np.linalg.solve(N, v)

    # Careful, there is an error in the original paper (the negative sign is
    # missing) !
    dHat = -invThet * (rHat + invThet * np.transpose(WTZ).dot(v))

    # We can then backtrack towards the feasible region, if necessary, to obtain
    # alpha a positive scalar between 0 and 1 -> Eq (5.8)
    mask = dHat != 0

    alpha_star = min(
        1.0,
        np.nanmin(
            np.where(
                dHat[mask] > 0, (ub - xc)[free_vars][mask], (lb - xc)[free_vars][mask]
            )
            / dHat[mask]
            if dHat[mask].size != 0
            else 1.0
        ),
    )
    # Eq (5.2) -> update free variables only
    return xc + alpha_star * Z @ dHat
