"""
Base functions used by the L-BFGS-B routine.

Functions
^^^^^^^^^

.. autosummary::
   :toctree: _autosummary

    get_bounds
    is_any_inf
    clip2bounds
    count_var_at_bounds
    projgr
    display_start
    display_iter
    display_results

"""

import logging
from typing import Optional, Sequence, Tuple

import numpy as np
from scipy.optimize._constraints import old_bound_to_new

from lbfgsb.types import NDArrayFloat


def get_bounds(
    x0: NDArrayFloat, bounds: Optional[NDArrayFloat]
) -> Tuple[NDArrayFloat, NDArrayFloat]:
    """
    Return the lower and upper bounds arrays.

    Parameters
    ----------
    x0 : NDArrayFloat
        TODO: x0 can be or an ensemble or a vector. add shapes.
    bounds : Optional[NDArrayFloat]
        _description_

    Returns
    -------
    Tuple[NDArrayFloat, NDArrayFloat]
        1-D arrays with lower and upper bounds respectively.

    Raises
    ------
    ValueError
        _description_
    ValueError
        _description_
    """
    n = x0.shape[0]
    if n == 0:
        raise ValueError("x0 cannot be an empty vector!")
    if bounds is None:
        bounds = np.repeat(np.array([(-np.inf, np.inf)]), n, axis=0)
    if len(bounds) != n:
        raise ValueError("Length of x0 != length of bounds")

    lb, ub = old_bound_to_new(bounds)

    # check bounds
    if (lb > ub).any():
        raise ValueError("One of the lower bounds is greater than an upper bound.")

    if (x0 < lb).any() or (x0 > ub).any():
        raise ValueError(
            f"There are {np.count_nonzero(x0 < lb)} values violating the lower bounds"
            f" and {np.count_nonzero(x0 > ub)} values violating the upper bounds!"
        )

    # initial vector must lie within the bounds. Otherwise ScalarFunction and
    # approx_derivative will cause problems
    return lb, ub


def is_any_inf(arrs: Sequence[NDArrayFloat]) -> bool:
    """
    Return whether any of the values in the given arrays is inf.

    Parameters
    ----------
    arrs : Sequence[NDArrayFloat]
        Sequence of arrays.

    Returns
    -------
    bool

    """
    return any([np.isinf(arr).any() for arr in arrs])


def clip2bounds(x0: NDArrayFloat, lb: NDArrayFloat, ub: NDArrayFloat) -> NDArrayFloat:
    """
    Impose the bounds to x0.

    Parameters
    ----------
    x0 : NDArrayFloat
        Adjusted variables. May be a 1D vector of size :math:`N_{n}`,
        or a 2D array of shape (:math:`N_{n}`, :math:`N_{e}`)
        with :math:`N_{n}` the number of adjusted variables and
        :math:`N_{e}` the number of columns (members in the ensemble).
    lb : NDArrayFloat
        Lower bounds (1D vector).
    ub : NDArrayFloat
        Upper bounds (1D vector).

    Returns
    -------
    NDArrayFloat
        Bounded adjusted variables.
    """
    if x0.dtype != np.float64:
        return np.clip(x0.T.astype(np.float64, copy=True), lb, ub).T
    return np.clip(x0.T, lb, ub).T


def count_var_at_bounds(x: NDArrayFloat, lb: NDArrayFloat, ub: NDArrayFloat) -> int:
    """
    Count the number of variables exactly at the bounds.

    Parameters
    ----------
    x : NDArrayFloat
        Adjusted variables. May be a 1D vector of size :math:`N_{n}`,
        or a 2D array of shape (:math:`N_{n}`, :math:`N_{e}`)
        with :math:`N_{n}` the number of adjusted variables and
        :math:`N_{e}` the number of columns (members in the ensemble).
    lb : NDArrayFloat
        Lower bounds.
    ub : NDArrayFloat
        Upper bounds.

    Returns
    -------
    int
        Number of variables exactly at the bounds.
    """
    return np.count_nonzero(np.logical_or(x >= ub, x <= lb))


def display_start(
    epsmch,
    n: int,
    m: int,
    nvar_at_b: int,
    iprint: int,
    logger: Optional[logging.Logger] = None,
) -> None:
    """
    Display information at solver start.

    Parameters
    ----------
    epsmch : _type_
        Machine precision.
    n : int
        Number of variables.
    m : int
        Number of updates.
    nvar_at_b : int
        Number of variables at bounds.
    iprint : int, optional
        Controls the frequency of output. ``iprint < 0`` means no output;
        ``iprint = 0``    print only one line at the last iteration;
        ``0 < iprint < 99`` print also f and ``|proj g|`` every iprint iterations;
        ``iprint >= 99``   print details of every iteration except n-vectors;
    logger: Optional[Logger], optional
        :class:`logging.Logger` instance. If None, nothing is displayed, no matter the
        value of `iprint`, by default None.

    """
    if iprint < 0 or logger is None:
        return
    logger.info("RUNNING THE L-BFGS-B CODE")
    logger.info("           * * *")
    logger.info(f"Machine precision = {epsmch}")
    logger.info(f"N = \t{n}\tM = \t{m}")
    logger.info(f"At X0, {nvar_at_b} variables are exactly at the bounds")


def projgr(
    x: NDArrayFloat,
    grad: NDArrayFloat,
    lb: NDArrayFloat,
    ub: NDArrayFloat,
) -> float:
    """
    Computes the infinity norm of the projected gradient.

    Parameters
    ----------
    x : NDArrayFloat
        _description_
    g : NDArrayFloat
        _description_
    lb : NDArrayFloat
        _description_
    ub : NDArrayFloat
        _description_

    Returns
    -------
    NDArrayFloat
        Infinity norm of the projected gradient
    """
    return np.max(np.abs(np.clip(x - grad, lb, ub) - x))


def display_iter(
    niter: int,
    sbgnrm: float,
    f: float,
    iprint: int,
    logger: Optional[logging.Logger] = None,
) -> None:
    """
    Display the objective function and the projected gradient for the iteration.

    Parameters
    ----------
    niter: int
        Current iteration number (0 to n).
    sbgnrm: float
        Infinity norm of the (-) projected gradient.
    iter: int
        Current iteration.
    iprint : int, optional
        Controls the frequency of output. ``iprint < 0`` means no output;
        ``iprint = 0``    print only one line at the last iteration;
        ``0 < iprint < 99`` print also f and ``|proj g|`` every iprint iterations;
        ``iprint >= 99``   print details of every iteration except n-vectors;
    logger: Optional[Logger], optional
        :class:`logging.Logger` instance. If None, nothing is displayed, no matter the
        value of `iprint`, by default None.

    """
    if iprint >= 1 and logger is not None:
        logger.info(f"At iterate {niter} , f= {f:.3e} , |proj g|= {sbgnrm:.3e}")


def display_results(
    n_iterations: int,
    max_iter,
    x: NDArrayFloat,
    grad: NDArrayFloat,
    lb: NDArrayFloat,
    ub: NDArrayFloat,
    f0: float,
    gtol: float,
    is_final_display: bool,
    iprint: int,
    logger: Optional[logging.Logger] = None,
) -> bool:
    r"""
    Display the optimization results on the fly.

    Parameters
    ----------
    n_iterations : int
        _description_
    max_iter : _type_
        _description_
    x : NDArrayFloat
        _description_
    grad : NDArrayFloat
        _description_
    lb : NDArrayFloat
        Lower bound vector.
    ub : NDArrayFloat
        Upper bound vector.
    f0 : NDArrayFloat
        Last objective function value.
    gtol : float
        Relative tolerance on gradient.
    is_final_display: bool
        Is it the final display, after convergence or stop.
    iprint : int, optional
        Controls the frequency of output. ``iprint < 0`` means no output;
        ``iprint = 0``    print only one line at the last iteration;
        ``0 < iprint < 99`` print also f and ``|proj g|`` every iprint iterations;
        ``iprint >= 99``   print details of every iteration except n-vectors;
    logger: Optional[Logger], optional
        :class:`logging.Logger` instance. If None, nothing is displayed, no matter the
        value of `iprint`, by default None.

    """
    if iprint is None or logger is None:
        return False
    if iprint < 0:
        return False
    if iprint == 0 and not is_final_display:
        return False
    elif iprint == 0:
        pass
    elif iprint < 99 and n_iterations % iprint != 0:
        return False
    logger.info(
        f"Iteration #{n_iterations:d} "
        f"(max: {max_iter:d}): "
        f"||x||={np.linalg.norm(x, np.inf):.3e}, "
        f"f(x)={f0:.3e}, "
        f"||jac(x)||={np.linalg.norm(grad, np.inf):.3e}, "
        f"cdt_arret={projgr(x, grad, lb, ub):.3e} "
        f"(eps={gtol:.3e})"
    )
    return True
